----------------------------- MODULE WithinTrace -----------------------------
(* Trace spec for C02: the real Point.Within answer for every listed query point, and the
   aggregate receivers' answers, against R1 (Classify).  R2 (Impl) is compared as drift. *)
EXTENDS Within, TraceIO
VARIABLES cs, drift
PolyOk(e) == /\ e.ev = "within" /\ e.out = "ok" /\ Len(e.res) = Len(e.pts)
             /\ \A i \in 1..Len(e.pts) : e.res[i] = Classify(e.pts[i], cs.polys)
AggOk(e) == /\ e.ev = "agg" /\ e.out = "ok" /\ e.splitsame
            /\ (e.res = Out) = AggOutside(cs.vs, cs.polys)
Ok(e) == IF cs.kind = "agg" THEN AggOk(e) ELSE PolyOk(e)
Apply(e) == /\ UNCHANGED cs
            /\ drift' = IF cs.kind # "agg" /\ \E i \in 1..Len(e.pts) : e.res[i] # Impl(e.pts[i], cs.polys) THEN drift + 1 ELSE drift
Reset(e) == cs' = e /\ UNCHANGED drift
Keep == UNCHANGED <<cs, drift>>
TraceInit == TInit /\ cs = [kind |-> "none"] /\ drift = 0 /\ polys = <<>>
TraceNext == TStep(Ok, Apply, Reset, Keep) /\ UNCHANGED polys
TraceSpec == TraceInit /\ [][TraceNext]_<<l, fails, cs, drift, polys>>
Report == TReport /\ (l > Len(Trace) => PrintT(<<"DRIFT", drift>>))
=============================================================================

------------------------------ MODULE WithinGen ------------------------------
(* Case generator for C02: polygonal geometries over a small lattice; the harness asks the real
   code about every lattice point (doubled coordinates = half-integers allowed). *)
EXTENDS Within, Json
CONSTANTS M3, M4, M2R, MA  \* thinning factors: 3-vertex rings, 4-vertex rings, two-ring / two-member cases, aggregates
VARIABLE c
RECURSIVE Hash(_, _)
Hash(s, a) == IF a > Len(s) THEN 0 ELSE (s[a][1] * 7 + s[a][2] * 13 + a * 3 + 5 * Hash(s, a + 1)) % 1009
R3 == TLCEval({r \in RingsOf(3) : Hash(r, 1) % M3 = 0})
R4 == TLCEval({r \in RingsOf(4) : Hash(r, 1) % M4 = 0})
R5 == TLCEval({r \in RingsOf(5) : Hash(r, 1) % (M4 * 40) = 0})
Close(r) == Append(r, r[1])
Pairs == TLCEval({<<a, b>> \in R3 \X R4 : (Hash(a, 1) + Hash(b, 1)) % M2R = 0})
PolyCases == {<< <<r>> >> : r \in R3 \cup R4 \cup R5} \cup {<< <<Close(r)>> >> : r \in R3}
             \cup {<< << << <<2, 2>>, <<8, 2>>, <<8, 6>>, <<2, 6>> >> >> >>, << << << <<1, 3>>, <<1, 7>>, <<9, 7>>, <<9, 3>>, <<1, 3>> >> >> >>}      \* rectangles (also asked as *Bounds)
             \cup {<< <<p[1], p[2]>> >> : p \in Pairs}                       \* one polygon, two rings (hole or not)
             \cup {<< <<p[1]>>, <<p[2]>> >> : p \in Pairs}                   \* two member polygons
             \cup {<< <<p[1], <<p[2][1], p[2][2]>>>> >> : p \in Pairs}       \* a ring of two vertices is ignored
AggCases == [kind : {"agg"}, recv : {"MultiPoint", "LineString", "MultiLineString", "Polygon"},
             vs : {r \in R4 : Hash(r, 1) % MA = 0}, polys : {<< <<r>> >> : r \in {x \in R4 : Hash(x, 1) % (MA + 4) = 1}}]
(* exactly one vertex of the receiver is outside (or on the edge), at every position of the vertex list *)
InsidePts == << <<4, 4>>, <<6, 4>>, <<5, 6>> >>
InsertAt(s, k, x) == SubSeq(s, 1, k - 1) \o <<x>> \o SubSeq(s, k, Len(s))
AggOne == [kind : {"agg"}, recv : {"MultiPoint", "LineString", "MultiLineString", "Polygon"},
           vs : {InsertAt(InsidePts, k, x) : k \in 1..4, x \in {<<10, 5>>, <<8, 5>>, <<5, 5>>}},
           polys : {<< << << <<2, 2>>, <<8, 2>>, <<8, 8>>, <<2, 8>> >> >> >>, << << << <<2, 2>>, <<8, 2>>, <<8, 8>>, <<2, 8>>, <<2, 2>> >> >> >>}]
(* receivers whose extent is inside while one of their vertices is not: the two corners of the receiver's bounding box lie
   in the polygon, a vertex lies in its hole / in its notch (the corners are vertices of the receiver, or are not) *)
Holed == << << <<2, 2>>, <<14, 2>>, <<14, 14>>, <<2, 14>> >>, << <<6, 6>>, <<10, 6>>, <<10, 10>>, <<6, 10>> >> >>
Notched == << << <<2, 2>>, <<14, 2>>, <<14, 14>>, <<10, 14>>, <<10, 6>>, <<6, 6>>, <<6, 14>>, <<2, 14>> >> >>
AggBox == [kind : {"agg"}, recv : {"MultiPoint", "LineString", "MultiLineString", "Polygon"},
           vs : {<< <<4, 4>>, <<8, 8>>, <<12, 12>> >>, << <<8, 8>>, <<4, 4>>, <<12, 12>> >>, << <<4, 12>>, <<8, 9>>, <<12, 4>> >>,
                 << <<4, 12>>, <<12, 4>>, <<8, 8>>, <<5, 5>> >>, << <<4, 4>>, <<12, 12>>, <<12, 4>> >>},
           polys : {<<Holed>>, <<Notched>>}]
(* two member polygons that overlap: a vertex of the receiver lies on an edge of one member and inside the other (on the
   edge wins over the parity), in both member orders, with the other vertices inside exactly one member *)
MemA == << << <<0, 0>>, <<8, 0>>, <<8, 8>>, <<0, 8>> >> >>
MemB == << << <<4, 2>>, <<12, 2>>, <<12, 6>>, <<4, 6>> >> >>
AggOver == [kind : {"agg"}, recv : {"MultiPoint", "LineString", "MultiLineString", "Polygon"},
            vs : {<< <<8, 4>>, <<2, 2>>, <<10, 4>> >>, << <<2, 2>>, <<8, 4>>, <<10, 4>> >>, << <<2, 2>>, <<10, 4>>, <<8, 4>> >>,
                  << <<4, 4>>, <<2, 2>>, <<10, 4>> >>, << <<2, 2>>, <<10, 4>>, <<2, 7>> >>, << <<2, 2>>, <<6, 4>>, <<10, 4>> >>},
            polys : {<<MemA, MemB>>, <<MemB, MemA>>}]
(* the same questions at magnitudes whose products leave the floating-point range (polygon and query points times 2^sh) *)
Shifted == {[kind |-> "poly", polys |-> p, n |-> GridN, sh |-> k] : p \in {<< <<r>> >> : r \in {y \in R3 : (Hash(y, 1) \div M3) % 6 = 0} \cup {y \in R4 : (Hash(y, 1) \div M4) % 6 = 0}}
                                                                       \cup {<< <<q[1], q[2]>> >> : q \in {y \in Pairs : (Hash(y[1], 1) \div M3) % 6 = 0}}, k \in {-560, 520}}
GenInit == /\ polys = <<>>
           /\ c \in [kind : {"poly"}, polys : PolyCases, n : {GridN}] \cup AggCases \cup AggOne \cup AggBox \cup AggOver \cup Shifted
           /\ PrintT(ToJson(c))
GenSpec == GenInit /\ [][UNCHANGED <<polys, c>>]_<<polys, c>>
=============================================================================

-------------------------------- MODULE Within --------------------------------
(* C02 - Point.Within classifies points against polygons exactly.              *)
(* Coordinates are integers (the harness halves them when half-integers are    *)
(* wanted; every predicate here is homogeneous, so scaling changes nothing).   *)
(* R1: Classify - OnEdge (2) if the point is on any segment, including the     *)
(*     implicit closing segment, of any ring with >= 3 vertices of any member  *)
(*     polygon; otherwise Inside (1) iff the even-odd crossing count over all  *)
(*     rings of all members is odd; else Outside (0).                          *)
(* R2: pointInPolygonal / pointInPolygon / rayIntersectsSegment transcribed:   *)
(*     per-ring bounding-box pre-filter, the closing segment of unclosed       *)
(*     rings, the upward nudge of the ray (an infinitesimal: p.y == a.y is     *)
(*     treated as just above), the slope comparison by cross-multiplication,   *)
(*     early OnEdge return, parity per polygon combined by inversion.          *)
EXTENDS Lattice, TLC

Out == 0
In == 1
Edge == 2

(* ------------------------------------------------------------------ R1 *)
AllRings(polys) == [i \in 1..Len(polys) |-> polys[i]]
OnAny(p, polys) == \E i \in 1..Len(polys) : OnRings(p, polys[i])
RECURSIVE SumPolys(_, _, _)
SumPolys(p, polys, i) == IF i > Len(polys) THEN 0 ELSE SumCross(p, polys[i], 1) + SumPolys(p, polys, i + 1)
Classify(p, polys) == IF OnAny(p, polys) THEN Edge
                      ELSE IF SumPolys(p, polys, 1) % 2 = 1 THEN In ELSE Out

(* aggregate receivers: Outside exactly when some vertex is Outside *)
AggOutside(vs, polys) == \E i \in 1..Len(vs) : Classify(vs[i], polys) = Out

(* ------------------------------------------------------------------ R2 *)
(* simplify.go pointOnSegment: bounding range, then equal slopes (d1 = l1 - p, d2 = l2 - l1) *)
PointOnSegment(p, l1, l2) ==
    IF (p[1] < l1[1] /\ p[1] < l2[1]) \/ (p[1] > l1[1] /\ p[1] > l2[1])
       \/ (p[2] < l1[2] /\ p[2] < l2[2]) \/ (p[2] > l1[2] /\ p[2] > l2[2]) THEN FALSE
    ELSE LET d1x == l1[1] - p[1]   d1y == l1[2] - p[2]
             d2x == l2[1] - l1[1]  d2y == l2[2] - l1[2]
         IN \/ (d1x = 0 /\ d2x = 0)
            \/ (d1x # 0 /\ d2x # 0 /\ d1y * d2x = d2y * d1x)      \* d1y/d1x == d2y/d2x
            \/ (d1x = 0 /\ d1y = 0 /\ d2x # 0 /\ FALSE)           \* 0/0 is NaN: never equal
            \/ (d1x = 0 /\ d1y # 0 /\ d2x = 0)                    \* covered above
            \/ (d1x # 0 /\ d2x = 0 /\ d2y = 0 /\ FALSE)
(* the slope test fails for p = l1 with d2x # 0 (0/0 = NaN); the code still answers OnEdge there
   because the *other* segment ending at l1 (or the same one seen as l2) matches - see RingOnEdge *)

(* within.go rayIntersectsSegment with the nudge as an infinitesimal epsilon added to p.y *)
RayIntersects(p, a0, b0) ==
    LET a == IF a0[2] > b0[2] THEN b0 ELSE a0
        b == IF a0[2] > b0[2] THEN a0 ELSE b0
        (* after nudging: p.y + eps; "p.y < a.y" is then p.y < a.y strictly, "p.y > b.y" is p.y >= b.y *)
    IN IF p[2] < a[2] \/ p[2] >= b[2] THEN FALSE
       ELSE IF a[1] > b[1]
            THEN IF p[1] >= a[1] THEN FALSE
                 ELSE IF p[1] < b[1] THEN TRUE
                 ELSE (* slope (p-a) >= slope (b-a), dx of both negative or p.x = ... *)
                      LET dxp == p[1] - a[1]  dyp == p[2] - a[2]  dxb == b[1] - a[1]  dyb == b[2] - a[2]
                      IN (* dyp/dxp >= dyb/dxb with dxp < 0, dxb < 0 ; dyp may carry +eps *)
                         IF dyp * dxb = dyb * dxp THEN FALSE      \* equal slopes: -(dy+eps)/|dx| is strictly smaller
                         ELSE dyp * dxb > dyb * dxp
            ELSE IF p[1] > b[1] THEN FALSE
                 ELSE IF p[1] < a[1] THEN TRUE
                 ELSE LET dxp == p[1] - a[1]  dyp == p[2] - a[2]  dxb == b[1] - a[1]  dyb == b[2] - a[2]
                      IN IF dxp = 0 THEN TRUE                                  \* (dy+eps)/0 = +Inf >= anything
                         ELSE IF dxb = 0 THEN FALSE                            \* finite >= +Inf never
                         ELSE IF dyp * dxb = dyb * dxp THEN TRUE               \* equal slopes, +eps/dx > 0 tips it
                         ELSE dyp * dxb > dyb * dxp

RingBoxOverlaps(p, r) == LET xs == {r[i][1] : i \in 1..Len(r)}  ys == {r[i][2] : i \in 1..Len(r)}
                         IN (\E x \in xs : x <= p[1]) /\ (\E x \in xs : x >= p[1]) /\ (\E y \in ys : y <= p[2]) /\ (\E y \in ys : y >= p[2])
(* the segments of a ring in the order the code visits them: closing segment first if the ring is unclosed *)
RingSegs(r) == (IF r[Len(r)] # r[1] THEN << <<r[Len(r)], r[1]>> >> ELSE <<>>) \o [i \in 1..(Len(r) - 1) |-> <<r[i], r[i + 1]>>]
RECURSIVE SegScan(_, _, _, _)
(* returns Edge, or the parity (In / Out) toggled from `acc` *)
SegScan(p, segs, i, acc) ==
    IF i > Len(segs) THEN acc
    ELSE IF PointOnSegment(p, segs[i][1], segs[i][2]) THEN Edge
    ELSE SegScan(p, segs, i + 1, IF RayIntersects(p, segs[i][1], segs[i][2]) THEN 1 - acc ELSE acc)
RECURSIVE PolyScan(_, _, _, _)
PolyScan(p, pg, i, acc) ==
    IF i > Len(pg) THEN acc
    ELSE IF Len(pg[i]) < 3 \/ ~RingBoxOverlaps(p, pg[i]) THEN PolyScan(p, pg, i + 1, acc)
    ELSE LET r == SegScan(p, RingSegs(pg[i]), 1, acc) IN IF r = Edge THEN Edge ELSE PolyScan(p, pg, i + 1, r)
RECURSIVE ImplFrom(_, _, _, _)
ImplFrom(p, polys, i, acc) ==
    IF i > Len(polys) THEN acc
    ELSE LET t == PolyScan(p, polys[i], 1, Out) IN
         IF t = Edge THEN Edge ELSE ImplFrom(p, polys, i + 1, IF t = In THEN 1 - acc ELSE acc)
Impl(p, polys) == ImplFrom(p, polys, 1, Out)

(* ------------------------------------------------------------------ universe + design check *)
CONSTANTS GridN, RingLens, Two      \* lattice 0..GridN; ring lengths; Two = also two-ring / two-member cases
Grid == {<<x, y>> : x \in 0..GridN, y \in 0..GridN}
RingsOf(n) == [1..n -> Grid]
Singles == UNION {{<< <<r>> >> : r \in RingsOf(n)} : n \in RingLens}
VARIABLE polys
Init == polys \in Singles
Spec == Init /\ [][UNCHANGED polys]_polys
R2EqualsR1 == \A p \in Grid : Impl(p, polys) = Classify(p, polys)
=============================================================================

-------------------------------- MODULE ClipGen --------------------------------
(* Case generator for C14: lines on a 7x7 lattice against a catalogue of valid polygons, filtered (by TLC) to
   simple lines in general position relative to the polygon. *)
EXTENDS Clip, Json
CONSTANTS N, M2, M3, M4,    \* lattice 0..N; thinning of 2-, 3-, 4-vertex lines
          MM               \* thinning of the pairs of lines that make multi-line strings
VARIABLE c
Grid == {<<x, y>> : x \in 0..N, y \in 0..N}
RECURSIVE HashL(_, _)
HashL(s, a) == IF a > Len(s) THEN 3 ELSE (s[a][1] * 17 + s[a][2] * 5 + a * 11 + 3 * HashL(s, a + 1)) % 997
L2 == TLCEval({s \in [1..2 -> Grid] : HashL(s, 1) % M2 = 0 /\ Simple(s)})
L3 == TLCEval({s \in [1..3 -> Grid] : HashL(s, 1) % M3 = 0 /\ Simple(s)})
L3w == TLCEval({s \in [1..3 -> Grid] : HashL(s, 1) % (M3 \div 4) = 1 /\ Simple(s)})
L4 == TLCEval({t \in {Append(s, p) : s \in L3w, p \in Grid} : HashL(t, 1) % M4 = 0 /\ Simple(t)})
Lines == L2 \cup L3 \cup L4
Tri == << <<1, 1>>, <<5, 2>>, <<2, 5>> >>
Quad == << <<1, 1>>, <<5, 1>>, <<4, 4>>, <<1, 5>> >>
Concave == << <<0, 1>>, <<6, 0>>, <<3, 2>>, <<5, 6>>, <<1, 4>> >>
Hole == << <<2, 2>>, <<3, 2>>, <<3, 3>>, <<2, 3>> >>
BoxR == << <<1, 2>>, <<5, 2>>, <<5, 5>>, <<1, 5>> >>
Far == << <<4, 4>>, <<6, 4>>, <<6, 6>>, <<4, 6>> >>
SmallTri == << <<0, 0>>, <<2, 0>>, <<0, 2>> >>
(* a hole that is a thin quadrilateral along the rising diagonal: a line along the falling diagonal crosses it although the
   lower-left and upper-right corners of the line's box are both inside the hole *)
Outer6 == << <<0, 0>>, <<6, 0>>, <<6, 6>>, <<0, 6>> >>
SliverH == << <<1, 1>>, <<3, 2>>, <<5, 5>>, <<2, 3>> >>
Polys == { [t |-> "Polygon", polys |-> << <<Tri>> >>], [t |-> "Polygon", polys |-> << <<Quad>> >>],
           [t |-> "Polygon", polys |-> << <<Concave>> >>], [t |-> "Polygon", polys |-> << <<Quad, Hole>> >>],
           [t |-> "Bounds", polys |-> << <<BoxR>> >>], [t |-> "MultiPolygon", polys |-> << <<SmallTri>>, <<Far>> >>],
           [t |-> "MultiPolygon", polys |-> << <<Quad, Hole>> >>], [t |-> "Polygon", polys |-> << <<Outer6, SliverH>> >>] }
RingsOf(P) == LET RECURSIVE Cat(_)
                  Cat(i) == IF i > Len(P.polys) THEN <<>> ELSE P.polys[i] \o Cat(i + 1)
              IN Cat(1)
Single == {[kind |-> "clip", lines |-> <<l>>, ml |-> FALSE, poly |-> P] : l \in Lines, P \in Polys}
(* a multi-line string is simple only if its members are: here the two members share no point at all *)
Apart(a, b) == \A i \in 1..(Len(a) - 1), j \in 1..(Len(b) - 1) : ~SegsMeet(a[i], a[i + 1], b[j], b[j + 1])
PairHash(q) == (HashL(q[1], 1) * 31 + 7 * HashL(q[2], 1)) % 1009
MPairs == TLCEval({q \in L2 \X (L2 \cup L3) : PairHash(q) % MM = 0 /\ Apart(q[1], q[2])})
(* (the pool of third members holds about thirty lines in either tier; the dense tier keeps every tenth combination, the other every fourth) *)
Third == TLCEval({y \in L2 : HashL(y, 1) % ((480 \div M2) \div 6) = 0})
K3 == IF M2 < 6 THEN 10 ELSE 4
MTriples == TLCEval({t \in {<<q[1], q[2], l>> : q \in {x \in MPairs : PairHash(x) % (3 * MM) = 0}, l \in Third} :
                       (HashL(t[1], 1) + 3 * HashL(t[2], 1) + (HashL(t[3], 1) \div 40)) % K3 = 0})
Multi == {[kind |-> "clip", lines |-> <<p[1], p[2]>>, ml |-> TRUE, poly |-> P] : p \in MPairs, P \in Polys}
         \cup {[kind |-> "clip", lines |-> t, ml |-> TRUE, poly |-> P] :          \* three members: more members than most polygons have rings
                  t \in {x \in MTriples : Apart(x[1], x[3]) /\ Apart(x[2], x[3])}, P \in Polys}
(* many members: nine short disjoint segments (4a, 4b)-(4a+2, 4b+4), a, b in 0..2, the same nine reversed, against
   triangles whose corners lie on an odd sub-lattice (chosen by TLC among those in general position with the segments):
   more members than any polygon here has rings, and more than a handful *)
NineSegs == [i \in 1..9 |-> LET x == 4 * ((i - 1) % 3)  y == 4 * ((i - 1) \div 3) IN << <<x, y>>, <<x + 2, y + 4>> >>]
NineRev == [i \in 1..9 |-> << NineSegs[10 - i][2], NineSegs[10 - i][1] >>]
OddPts == {<<x, y>> : x \in {1, 5, 9, 13}, y \in {1, 5, 9, 13}}
TriCands == TLCEval({t \in [1..3 -> OddPts] : Area2(t) > 0 /\ HashL(t, 1) % 7 = 0 /\ GeneralPosition(NineSegs, <<t>>)})
Many == {[kind |-> "clip", lines |-> ls, ml |-> TRUE, poly |-> [t |-> ty, polys |-> << <<t>> >>]] :
            ls \in {NineSegs, NineRev}, t \in TriCands, ty \in {"Polygon", "MultiPolygon"}}
(* lines all of whose vertices are inside P while P is not convex / has a hole / has two members: the line may leave P
   between its vertices (every 2-vertex line of the lattice, and 3-vertex lines thinned by M3 / 8) *)
Tricky == { [t |-> "Polygon", polys |-> << <<Concave>> >>], [t |-> "Polygon", polys |-> << <<Quad, Hole>> >>],
            [t |-> "MultiPolygon", polys |-> << <<SmallTri>>, <<Far>> >>], [t |-> "MultiPolygon", polys |-> << <<Quad, Hole>> >>],
            [t |-> "Polygon", polys |-> << <<Outer6, SliverH>> >>] }
L2all == TLCEval({s \in [1..2 -> Grid] : s[1] # s[2]})
L3m == TLCEval({s \in [1..3 -> Grid] : HashL(s, 1) % (M3 \div 8) = 2 /\ Simple(s)})
AllInside(l, P) == \A i \in 1..Len(l) : InRings(l[i], RingsOf(P))
InsideCases == {[kind |-> "clip", lines |-> <<l>>, ml |-> FALSE, poly |-> P] : l \in {x \in L2all \cup L3m : TRUE}, P \in Tricky}
(* the same cases at other magnitudes: the harness multiplies every coordinate by 2^sh (exact) and divides the result again *)
Scaled == {[kind |-> "clip", lines |-> x.lines, ml |-> x.ml, poly |-> x.poly, sh |-> s] :
              x \in {y \in Single : HashL(y.lines[1], 1) % 3 = 0}, s \in {-20, 20}}
GenInit == /\ c \in {x \in Single \cup Multi \cup Scaled \cup Many : GeneralPosition(x.lines, RingsOf(x.poly))}
                   \cup {x \in InsideCases : AllInside(x.lines[1], x.poly) /\ GeneralPosition(x.lines, RingsOf(x.poly))}
           /\ PrintT(ToJson(c))
GenSpec == GenInit /\ [][UNCHANGED c]_c
=============================================================================

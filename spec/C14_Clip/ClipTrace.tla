------------------------------- MODULE ClipTrace -------------------------------
(* Trace spec for C14: one Clip call per recording.  The harness maps every output vertex to a descriptor
   (exact lattice equality for line vertices; for crossings the unique (segment, ring, edge) whose exact
   rational intersection point is within 1e-9 of the vertex, else "?"); everything else is decided here. *)
EXTENDS Clip, TraceIO
VARIABLE cs
Rings == LET RECURSIVE Cat(_)
             Cat(i) == IF i > Len(cs.poly.polys) THEN <<>> ELSE cs.poly.polys[i] \o Cat(i + 1)
         IN Cat(1)
Ok(e) == /\ e.ev = "clip" /\ e.out = "ok" /\ e.dense /\ e.moved /\ e.again      \* dense: the same line with every segment cut into 257 pieces is clipped to the same total length;      \* again: clipping the same line by the same polygon value once more gives the same pieces
         /\ \A m \in 1..Len(cs.lines) : Simple(cs.lines[m])
         /\ GeneralPosition(cs.lines, Rings)                 \* the case is inside the property's quantifier domain
         /\ ClipOK(e.pieces, cs.lines, Rings)
         /\ (Len(Expected(cs.lines, Rings)) = 0) = e.empty   \* empty exactly when the line does not enter the polygon
Apply(e) == UNCHANGED cs
Reset(e) == cs' = e
Keep == UNCHANGED cs
TraceInit == TInit /\ cs = [kind |-> "none"]
TraceNext == TStep(Ok, Apply, Reset, Keep)
TraceSpec == TraceInit /\ [][TraceNext]_<<l, fails, cs>>
=============================================================================

---------------------------------- MODULE Clip ----------------------------------
(* C14 - Linear.Clip returns exactly the parts of a line inside the polygon.     *)
(* R1: the exact combinatorial clip.  A position on the (multi-)line is           *)
(*     <<m, i, num, den>>: member m, segment i, parameter num/den in [0,1)        *)
(*     (the end of a line is <<m, n, 0, 1>>).  For a line in general position     *)
(*     relative to the polygon (no line vertex on the boundary, no polygon vertex *)
(*     on the line) every crossing is proper; crossings of a segment are ordered  *)
(*     by their rational parameter and the inside/outside state alternates,       *)
(*     starting from the exact membership of the first vertex.  The clip is the   *)
(*     resulting sequence of position intervals.                                  *)
(*     An observed result is a set of pieces, each a sequence of descriptors      *)
(*     V(m, i) (a line vertex) or X(m, i, r, e) (the crossing of segment i with   *)
(*     edge e of ring r); each piece must be a sub-path of its line (all line     *)
(*     vertices between its ends present, in order, either direction) and the     *)
(*     union of the pieces must equal the expected intervals (pieces may be split *)
(*     at line vertices and come in any order).                                   *)
EXTENDS Lattice, TLC

(* ------------------------------------------------------------------ positions *)
PosLess(p, q) == \/ p[1] < q[1]
                 \/ (p[1] = q[1] /\ p[2] < q[2])
                 \/ (p[1] = q[1] /\ p[2] = q[2] /\ p[3] * q[4] < q[3] * p[4])
PosEq(p, q) == p[1] = q[1] /\ p[2] = q[2] /\ p[3] * q[4] = q[3] * p[4]
VPos(m, i) == <<m, i, 0, 1>>

(* parameter of the proper crossing of segment a-b with edge c-d *)
CrossParam(a, b, c, d) == LET oa == AbsI(Cross(c, d, a))
                              ob == AbsI(Cross(c, d, b))
                          IN <<oa, oa + ob>>
(* all edges of all rings as <<r, e>> *)
EdgesOf(rings) == UNION {{<<r, e>> : e \in 1..Len(rings[r])} : r \in 1..Len(rings)}
EdgeA(rings, re) == rings[re[1]][re[2]]
EdgeB(rings, re) == RingNext(rings[re[1]], re[2])
SegCrossings(a, b, rings) == {re \in EdgesOf(rings) : ProperCross(a, b, EdgeA(rings, re), EdgeB(rings, re))}
(* crossings of a segment sorted by parameter *)
RECURSIVE SortParams(_)
SortParams(S) == IF S = {} THEN <<>>
                 ELSE LET x == CHOOSE y \in S : \A z \in S : ~RatLess(z, y)
                      IN <<x>> \o SortParams(S \ {x})
SegParams(a, b, rings) == SortParams({CrossParam(a, b, EdgeA(rings, re), EdgeB(rings, re)) : re \in SegCrossings(a, b, rings)})

(* ------------------------------------------------------------------ general position (domain filter) *)
AllRingVerts(rings) == UNION {{rings[r][k] : k \in 1..Len(rings[r])} : r \in 1..Len(rings)}
GeneralPosition(lines, rings) ==
    /\ \A m \in 1..Len(lines) : \A i \in 1..Len(lines[m]) : ~OnRings(lines[m][i], rings)
    /\ \A m \in 1..Len(lines) : \A i \in 1..(Len(lines[m]) - 1) : \A v \in AllRingVerts(rings) : ~OnSegment(v, lines[m][i], lines[m][i + 1])
    (* distinct crossing points on each segment: no two edges cross it at the same parameter *)
    /\ \A m \in 1..Len(lines) : \A i \in 1..(Len(lines[m]) - 1) :
          LET a == lines[m][i]
              b == lines[m][i + 1]
          IN Cardinality({CrossParam(a, b, EdgeA(rings, re), EdgeB(rings, re)) : re \in SegCrossings(a, b, rings)})
             = Cardinality(SegCrossings(a, b, rings))

(* ------------------------------------------------------------------ expected intervals *)
RECURSIVE WalkXs(_, _, _, _, _, _)
(* fold over the sorted crossings xs of segment (m, i); state [inside, start, acc] *)
WalkXs(m, i, xs, k, inside, st) ==
    IF k > Len(xs) THEN [inside |-> inside, start |-> st.start, acc |-> st.acc]
    ELSE LET p == <<m, i, xs[k][1], xs[k][2]>> IN
         IF inside THEN WalkXs(m, i, xs, k + 1, FALSE, [start |-> st.start, acc |-> Append(st.acc, <<st.start, p>>)])
         ELSE WalkXs(m, i, xs, k + 1, TRUE, [start |-> p, acc |-> st.acc])
RECURSIVE WalkLine(_, _, _, _, _, _)
WalkLine(m, L, rings, i, inside, st) ==
    IF i >= Len(L) THEN (IF inside /\ Len(L) >= 1 THEN Append(st.acc, <<st.start, VPos(m, Len(L))>>) ELSE st.acc)
    ELSE LET r == WalkXs(m, i, SegParams(L[i], L[i + 1], rings), 1, inside, st)
         IN WalkLine(m, L, rings, i + 1, r.inside, [start |-> r.start, acc |-> r.acc])
LineIntervals(m, L, rings) ==
    IF Len(L) = 0 THEN <<>>
    ELSE LET in0 == InRings(L[1], rings)
         IN WalkLine(m, L, rings, 1, in0, [start |-> VPos(m, 1), acc |-> <<>>])
RECURSIVE AllIntervals(_, _, _)
AllIntervals(lines, rings, m) == IF m > Len(lines) THEN <<>>
                                 ELSE LineIntervals(m, lines[m], rings) \o AllIntervals(lines, rings, m + 1)
NonDegenerate(ivs) == SelectSeq(ivs, LAMBDA iv : ~PosEq(iv[1], iv[2]))
Expected(lines, rings) == NonDegenerate(AllIntervals(lines, rings, 1))

(* ------------------------------------------------------------------ observed pieces *)
(* descriptor: [k |-> "V", m, i] | [k |-> "X", m, i, r, e] | [k |-> "?"] *)
DescOK(d, lines, rings) ==
    /\ d.k \in {"V", "X"} /\ d.m \in 1..Len(lines)
    /\ IF d.k = "V" THEN d.i \in 1..Len(lines[d.m])
       ELSE /\ d.i \in 1..(Len(lines[d.m]) - 1) /\ d.r \in 1..Len(rings) /\ d.e \in 1..Len(rings[d.r])
            /\ ProperCross(lines[d.m][d.i], lines[d.m][d.i + 1], EdgeA(rings, <<d.r, d.e>>), EdgeB(rings, <<d.r, d.e>>))
PosOf(d, lines, rings) ==
    IF d.k = "V" THEN VPos(d.m, d.i)
    ELSE LET x == CrossParam(lines[d.m][d.i], lines[d.m][d.i + 1], EdgeA(rings, <<d.r, d.e>>), EdgeB(rings, <<d.r, d.e>>))
         IN <<d.m, d.i, x[1], x[2]>>
(* a piece is a sub-path of its line: one member, strictly monotone positions, and exactly the line vertices
   strictly between its ends appear between them *)
PieceOK(pc, lines, rings) ==
    /\ \A j \in 1..Len(pc) : DescOK(pc[j], lines, rings)
    /\ Len(pc) >= 1
    /\ LET ps == [j \in 1..Len(pc) |-> PosOf(pc[j], lines, rings)]
           fwd == \A j \in 1..(Len(ps) - 1) : PosLess(ps[j], ps[j + 1])
           bwd == \A j \in 1..(Len(ps) - 1) : PosLess(ps[j + 1], ps[j])
           lo == IF fwd THEN ps[1] ELSE ps[Len(ps)]
           hi == IF fwd THEN ps[Len(ps)] ELSE ps[1]
           m == ps[1][1]
           between == {i \in 1..Len(lines[m]) : PosLess(lo, VPos(m, i)) /\ PosLess(VPos(m, i), hi)}
       IN /\ (fwd \/ bwd \/ Len(ps) = 1)
          /\ \A j \in 1..Len(ps) : ps[j][1] = m
          /\ \A i \in between : \E j \in 2..(Len(ps) - 1) : PosEq(ps[j], VPos(m, i))
          /\ Len(ps) <= Cardinality(between) + 2
PieceInterval(pc, lines, rings) ==
    LET a == PosOf(pc[1], lines, rings)
        b == PosOf(pc[Len(pc)], lines, rings)
    IN IF PosLess(b, a) THEN <<b, a>> ELSE <<a, b>>
(* sort intervals by start and merge the ones that touch *)
RECURSIVE SortIvs(_)
SortIvs(S) == IF S = {} THEN <<>>
              ELSE LET x == CHOOSE y \in S : \A z \in S : ~PosLess(z[1], y[1])
                   IN <<x>> \o SortIvs(S \ {x})
RECURSIVE MergeIvs(_)
MergeIvs(s) == IF Len(s) <= 1 THEN s
               ELSE IF PosEq(s[1][2], s[2][1]) THEN MergeIvs(<< <<s[1][1], s[2][2]>> >> \o SubSeq(s, 3, Len(s)))
               ELSE <<s[1]>> \o MergeIvs(Tail(s))
SameIvs(a, b) == Len(a) = Len(b) /\ \A j \in 1..Len(a) : PosEq(a[j][1], b[j][1]) /\ PosEq(a[j][2], b[j][2])
ClipOK(pieces, lines, rings) ==
    /\ \A j \in 1..Len(pieces) : PieceOK(pieces[j], lines, rings)
    /\ LET obs == {PieceInterval(pieces[j], lines, rings) : j \in {x \in 1..Len(pieces) : Len(pieces[x]) >= 2}}
       IN SameIvs(MergeIvs(SortIvs({iv \in obs : ~PosEq(iv[1], iv[2])})), Expected(lines, rings))
=============================================================================

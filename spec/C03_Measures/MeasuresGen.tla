------------------------------ MODULE MeasuresGen ------------------------------
(* Case generator for C03: a catalogue of valid lattice shapes (validity decided by TLC) and, for each,
   its spelling orbit: per-ring reversal x rotation x closed/unclosed. *)
EXTENDS Measures, Json
CONSTANTS MS      \* thinning of the spelling orbit
VARIABLE c
S1 == << <<0, 0>>, <<6, 0>>, <<6, 6>>, <<0, 6>> >>
S2 == << <<0, 0>>, <<8, 0>>, <<8, 4>>, <<4, 4>>, <<4, 8>>, <<0, 8>> >>
S3 == << <<0, 0>>, <<12, 0>>, <<0, 9>> >>
S4 == << <<2, 0>>, <<10, 0>>, <<12, 6>>, <<6, 11>>, <<0, 6>> >>
S5 == << <<0, 0>>, <<10, 2>>, <<3, 3>>, <<2, 10>> >>
H1a == << <<1, 1>>, <<2, 1>>, <<2, 2>>, <<1, 2>> >>
H1b == << <<3, 3>>, <<5, 3>>, <<4, 5>> >>
H2a == << <<1, 1>>, <<3, 1>>, <<3, 3>>, <<1, 3>> >>
H2b == << <<5, 1>>, <<7, 1>>, <<7, 3>> >>
H3a == << <<1, 1>>, <<4, 1>>, <<1, 3>> >>
H4a == << <<4, 3>>, <<8, 3>>, <<6, 7>> >>
H4b == << <<2, 5>>, <<3, 5>>, <<3, 6>>, <<2, 6>> >>
H5a == << <<1, 1>>, <<3, 2>>, <<2, 2>> >>
(* a U-shaped hole with a second hole in its notch: the bounding box of one hole lies inside the bounding box of the other *)
S6 == << <<0, 0>>, <<12, 0>>, <<12, 12>>, <<0, 12>> >>
HU == << <<2, 2>>, <<10, 2>>, <<10, 9>>, <<8, 9>>, <<8, 4>>, <<4, 4>>, <<4, 9>>, <<2, 9>> >>
HN == << <<5, 6>>, <<7, 6>>, <<7, 8>>, <<5, 8>> >>
Shift(r, dx, dy) == [i \in 1..Len(r) |-> <<r[i][1] + dx, r[i][2] + dy>>]
ShiftP(pg, dx, dy) == [i \in 1..Len(pg) |-> Shift(pg[i], dx, dy)]
BasePolys == { <<S1>>, <<S1, H1a>>, <<S1, H1a, H1b>>, <<S2>>, <<S2, H2a>>, <<S2, H2a, H2b>>, <<S3>>, <<S3, H3a>>,
               <<S4>>, <<S4, H4a>>, <<S4, H4a, H4b>>, <<S5>>, <<S5, H5a>>, <<S6, HU, HN>>, <<S6, HN, HU>> }
BaseShapes == {<<p>> : p \in BasePolys}
              \cup {<<p, ShiftP(q, 14, 1)>> : p \in {<<S1, H1a>>, <<S3>>, <<S5, H5a>>}, q \in {<<S1>>, <<S2, H2a>>, <<S4, H4a>>}}
ASSUME \A sh \in BaseShapes : ValidShape(sh)

Spells == [rev : BOOLEAN, k : {0, 1, 2}, closed : BOOLEAN]
RECURSIVE RingSpellings(_)
(* all assignments of a spelling to each ring of a polygon (as a set of sequences of spellings) *)
RingSpellings(n) == [1..n -> Spells]
SpellPoly(pg, sps) == [i \in 1..Len(pg) |-> Spell(pg[i], sps[i])]
HashSp(sps) == LET RECURSIVE H(_)
                   H(i) == IF i > Len(sps) THEN 7 ELSE ((IF sps[i].rev THEN 5 ELSE 1) + 3 * sps[i].k + (IF sps[i].closed THEN 11 ELSE 2) + 17 * H(i + 1)) % 1013
               IN H(1)
(* spelled shapes: every member polygon gets the same family of spellings applied ring by ring *)
SpelledOf(sh) == IF Len(sh) = 1
                 THEN {<<SpellPoly(sh[1], s)>> : s \in {x \in RingSpellings(Len(sh[1])) : Len(sh[1]) = 1 \/ HashSp(x) % MS = 0}}
                 ELSE {<<SpellPoly(sh[1], s), SpellPoly(sh[2], t)>> :
                         s \in {x \in RingSpellings(Len(sh[1])) : HashSp(x) % (MS * 3) = 0},
                         t \in {x \in RingSpellings(Len(sh[2])) : HashSp(x) % (MS * 3) = 1}}
(* members reversed as a whole (each member stays consistent in itself, the members wind in different directions) *)
WholeRev(pg, r) == [i \in 1..Len(pg) |-> Spell(pg[i], [rev |-> r, k |-> 0, closed |-> TRUE])]
MemberRevs(sh) == IF Len(sh) # 2 THEN {} ELSE {<<WholeRev(sh[1], a), WholeRev(sh[2], b)>> : a \in BOOLEAN, b \in BOOLEAN}
AreaCases == UNION {{[kind |-> "shape", base |-> sh, spelled |-> sp] : sp \in MemberRevs(sh)} : sh \in BaseShapes} \cup UNION {{[kind |-> "shape", base |-> sh, spelled |-> sp] : sp \in SpelledOf(sh)} : sh \in BaseShapes}

(* paths with integer segment lengths, and query points *)
Steps == {<<3, 4>>, <<4, 3>>, <<-3, 4>>, <<5, 12>>, <<6, -8>>, <<7, 0>>, <<0, 5>>, <<-4, -3>>, <<0, -2>>, <<8, 6>>}
(* longer paths, and closed ones (the last vertex repeats the first) *)
LongSteps == { << <<7, 0>>, <<0, 5>>, <<-7, 0>>, <<0, -5>> >>, << <<3, 4>>, <<-3, 4>>, <<-3, -4>>, <<3, -4>> >>,
               << <<3, 4>>, <<4, 3>>, <<5, 12>>, <<6, -8>>, <<0, -2>>, <<8, 6>> >>, << <<8, 6>>, <<-8, -6>> >>,
               << <<0, 5>>, <<0, 5>>, <<7, 0>>, <<-4, -3>>, <<-3, 4>> >>,
               (* a vertex repeated in place (a segment of length zero) at the start, in the middle, at the end *)
               << <<0, 0>>, <<7, 0>>, <<0, 5>> >>, << <<3, 4>>, <<0, 0>>, <<4, 3>> >>, << <<6, -8>>, <<0, 5>>, <<0, 0>> >>, << <<0, 0>> >> }
PathFrom(p0, st) == LET RECURSIVE P(_, _)
                        P(i, cur) == IF i > Len(st) THEN <<cur>> ELSE <<cur>> \o P(i + 1, <<cur[1] + st[i][1], cur[2] + st[i][2]>>)
                    IN P(1, p0)
Paths == {PathFrom(<<10, 10>>, st) : st \in UNION {[1..n -> Steps] : n \in 1..3}}
LongPaths == {PathFrom(<<10, 10>>, st) : st \in LongSteps}
Queries == {<<10, 10>>, <<0, 0>>, <<13, 16>>, <<12, 11>>, <<30, 5>>, <<14, 12>>}
LineCases == {[kind |-> "line", path |-> p, q |-> q] : p \in LongPaths, q \in Queries} \cup {[kind |-> "line", path |-> p, q |-> q] : p \in {x \in Paths : HashSp([i \in 1..Len(x) |-> [rev |-> x[i][1] % 2 = 0, k |-> x[i][2] % 3, closed |-> TRUE]]) % MS = 0}, q \in Queries}
(* points one lattice step off a long oblique segment: the segment runs from (0,0) to k (n+1, n), the point is
   (1,1) + j (n+1, n), so twice the triangle area is exactly 1 and the distance is 1 / |segment| - tiny against the
   coordinates.  The exact squared distance travels with the case; the harness reports the error of the real Distance
   relative to the size of the coordinates. *)
NearSeg(n, k, j, sw, rv) == LET a == <<0, 0>>
                                b == <<k * (n + 1), k * n>>
                                p == <<1 + j * (n + 1), 1 + j * n>>
                                f(v) == IF sw THEN <<v[2], v[1]>> ELSE v
                            IN [path |-> IF rv THEN <<f(b), f(a)>> ELSE <<f(a), f(b)>>, q |-> f(p)]
NearCases == {[kind |-> "near", path |-> x.path, q |-> x.q, d2 |-> Dist2PointSeg(x.q, x.path[1], x.path[2])] :
                x \in {NearSeg(n, k, j, sw, rv) : n \in {30, 1000}, k \in {2, 10}, j \in {0, 1}, sw \in BOOLEAN, rv \in BOOLEAN}}
BufferCases == [kind : {"buffer"}, c : {<<0, 0>>, <<3, -2>>}, r : {1, 2, 5}, n : {3, 4, 5, 8, 64}]

(* the same shapes and paths far from the coordinate origin: the case carries the translation (never computed with in
   TLC); area, length and distance do not change under it and the centroid moves with it - the harness translates the
   coordinates and reports the centroid relative to the translation.  At these magnitudes the lattice areas are still
   exact in binary floating point (products of a coordinate sum and a coordinate difference stay below 2^53). *)
Offs == {<<100000001, 100000001>>, <<-300000000, 200000000>>, <<1000000, -70000000>>}
FarShapes == UNION {{[kind |-> "shape", base |-> sh, spelled |-> sp, off |-> o] : sp \in {x \in SpelledOf(sh) : TRUE}, o \in Offs} : sh \in BaseShapes}
FarLines == {[kind |-> "line", path |-> p, q |-> q, off |-> o] : p \in LongPaths, q \in {<<10, 10>>, <<13, 16>>, <<30, 5>>}, o \in Offs}
(* the same shapes and paths at other magnitudes: the harness multiplies every coordinate by 2^sh (exact in binary floating
   point) and divides the measures again (areas by 4^sh), so every expectation stays the one of the lattice shape *)
Shifts == {-20, 24}
ScaledShapes == UNION {{[kind |-> "shape", base |-> sh, spelled |-> sp, sh |-> k] : sp \in {x \in SpelledOf(sh) : TRUE}, k \in Shifts} : sh \in BaseShapes}
ScaledLines == {[kind |-> "line", path |-> p, q |-> q, sh |-> k] : p \in LongPaths, q \in {<<10, 10>>, <<13, 16>>, <<30, 5>>}, k \in Shifts}
(* lengths at magnitudes whose squares leave the floating-point range (2^600 squared overflows, 2^-600 squared is zero): the
   length of a path is still an ordinary number there; only the length clauses are examined for these cases *)
HugeLines == {[kind |-> "len", path |-> p, q |-> <<10, 10>>, sh |-> k] : p \in LongPaths, k \in {-600, 600}}
(* boxes (a *Bounds is a Polygonal): centre and area, at ordinary magnitudes and at the top of the floating-point range, where
   the sum and the difference of two finite coordinates need not be finite although their mean is (area is examined at
   ordinary magnitudes only) *)
BoxCases == [kind : {"box"}, min : {<<-3, -1>>, <<3, 1>>, <<-5, -3>>, <<0, 0>>}, max : {<<5, 3>>}, sh : {0, -20, 24, 1021}]
GenInit == c \in BoxCases \cup HugeLines \cup AreaCases \cup LineCases \cup NearCases \cup BufferCases \cup FarShapes \cup FarLines \cup ScaledShapes \cup ScaledLines /\ PrintT(ToJson(c))
GenSpec == GenInit /\ [][UNCHANGED c]_c
=============================================================================

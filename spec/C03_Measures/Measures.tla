-------------------------------- MODULE Measures --------------------------------
(* C03 - area, centroid, length and distance are the true measures of the shape.  *)
(* R1 over valid lattice polygons (rings = shell followed by holes):             *)
(*   TrueArea2  twice the area: |A2(shell)| - sum |A2(hole)|                     *)
(*   centroid   the rational N / D per axis with                                 *)
(*              N = sum_r sigma_r sgn(A2_r) M_r,  D = 3 sum_r sigma_r |A2_r|,     *)
(*              M_r = sum_i (c_i + c_{i+1}) (x_i y_{i+1} - x_{i+1} y_i),          *)
(*              sigma = +1 for shells, -1 for holes;                             *)
(*   both are invariants of the *shape*: they do not depend on winding, start    *)
(*   vertex or whether the closing vertex is repeated (the spelling orbit).      *)
(*   Length = sum of segment lengths (segments are axis-parallel or Pythagorean, *)
(*   so every length is an integer); Distance(p)^2 = min rational Dist2PointSeg. *)
(* Recorded floats are compared through integers: the harness reports values     *)
(* multiplied by K and rounded.                                                  *)
EXTENDS Lattice, TLC

K == 1000

(* ------------------------------------------------------------------ spellings *)
RevSeq(r) == [i \in 1..Len(r) |-> r[Len(r) + 1 - i]]
Rot(r, k) == [i \in 1..Len(r) |-> r[((i - 1 + k) % Len(r)) + 1]]
CloseR(r) == Append(r, r[1])
Spell(r, sp) == LET a == IF sp.rev THEN RevSeq(r) ELSE r
                    b == Rot(a, sp.k % Len(r))
                IN IF sp.closed THEN CloseR(b) ELSE b
(* the open form of a possibly closed ring *)
OpenR(r) == IF Len(r) >= 2 /\ r[1] = r[Len(r)] THEN SubSeq(r, 1, Len(r) - 1) ELSE r

(* ------------------------------------------------------------------ R1 *)
RECURSIVE MomFrom(_, _, _)
MomFrom(r, ax, i) == IF i > Len(r) THEN 0
                     ELSE LET a == r[i]
                              b == RingNext(r, i)
                          IN (a[ax] + b[ax]) * (a[1] * b[2] - b[1] * a[2]) + MomFrom(r, ax, i + 1)
Mom(r, ax) == MomFrom(r, ax, 1)
(* a polygon is <<shell, hole1, ...>> (open rings); a shape is a sequence of polygons *)
RECURSIVE SumPoly(_, _, _)
SumPoly(pg, f(_, _), i) == IF i > Len(pg) THEN 0 ELSE f(pg[i], i) + SumPoly(pg, f, i + 1)
PolyArea2(pg) == SumPoly(pg, LAMBDA r, i : (IF i = 1 THEN 1 ELSE -1) * AbsI(Area2(r)), 1)
PolyNum(pg, ax) == SumPoly(pg, LAMBDA r, i : (IF i = 1 THEN 1 ELSE -1) * Sgn(Area2(r)) * Mom(r, ax), 1)
RECURSIVE SumShape(_, _, _)
SumShape(sh, f(_), i) == IF i > Len(sh) THEN 0 ELSE f(sh[i]) + SumShape(sh, f, i + 1)
TrueArea2(sh) == SumShape(sh, PolyArea2, 1)
CenNum(sh, ax) == SumShape(sh, LAMBDA pg : PolyNum(pg, ax), 1)
CenDen(sh) == 3 * TrueArea2(sh)
(* recorded centroid coordinate times K (rounded) agrees with N / D to within 2 / K *)
(* (a reported value beyond 1000 units is no centroid of a catalogue shape, and must not reach the 32-bit product) *)
CenClose(vK, num, den) == AbsI(vK) <= 1000 * K /\ AbsI(vK * den - num * K) <= 2 * AbsI(den)

(* validity of a polygon: simple rings, holes strictly inside the shell, rings pairwise disjoint *)
RingsDisjoint(r, s) == \A i \in 1..Len(r), j \in 1..Len(s) : ~SegsMeet(r[i], RingNext(r, i), s[j], RingNext(s, j))
SimpleRingM(r) == /\ Len(r) >= 3 /\ Area2(r) # 0
                  /\ \A i \in 1..Len(r), j \in 1..Len(r) :
                       (i < j /\ j # (i % Len(r)) + 1 /\ i # (j % Len(r)) + 1) => ~SegsMeet(r[i], RingNext(r, i), r[j], RingNext(r, j))
ValidPolygon(pg) == /\ \A i \in 1..Len(pg) : SimpleRingM(pg[i])
                    /\ \A i \in 2..Len(pg) : /\ RingsDisjoint(pg[1], pg[i])
                                             /\ InRings(pg[i][1], <<pg[1]>>)
                    /\ \A i \in 2..Len(pg), j \in 2..Len(pg) : i < j => /\ RingsDisjoint(pg[i], pg[j])
                                                                       /\ ~InRings(pg[j][1], <<pg[i]>>) /\ ~InRings(pg[i][1], <<pg[j]>>)
BoxOf(pg) == LET xs == {pg[1][i][1] : i \in 1..Len(pg[1])}  ys == {pg[1][i][2] : i \in 1..Len(pg[1])}
             IN <<CHOOSE a \in xs : \A b \in xs : a <= b, CHOOSE a \in ys : \A b \in ys : a <= b,
                  CHOOSE a \in xs : \A b \in xs : a >= b, CHOOSE a \in ys : \A b \in ys : a >= b>>
BoxesApart(a, b) == a[3] < b[1] \/ b[3] < a[1] \/ a[4] < b[2] \/ b[4] < a[2]
ValidShape(sh) == /\ \A i \in 1..Len(sh) : ValidPolygon(sh[i])
                  /\ \A i \in 1..Len(sh), j \in 1..Len(sh) : i < j => BoxesApart(BoxOf(sh[i]), BoxOf(sh[j]))

(* orientation-consistent spelling: every hole winds opposite to its shell *)
Consistent(pgs) == \A p \in 1..Len(pgs) : \A i \in 2..Len(pgs[p]) : Sgn(Area2(OpenR(pgs[p][i]))) = -Sgn(Area2(OpenR(pgs[p][1])))
AllClosed(pgs) == \A p \in 1..Len(pgs) : \A i \in 1..Len(pgs[p]) : pgs[p][i][1] = pgs[p][i][Len(pgs[p][i])]

(* lengths *)
ISqrt(n) == CHOOSE s \in 0..200 : s * s = n
RECURSIVE PathLen(_, _)
PathLen(p, i) == IF i >= Len(p) THEN 0 ELSE ISqrt(Len2(p[i], p[i + 1])) + PathLen(p, i + 1)
IntegerSegments(p) == \A i \in 1..(Len(p) - 1) : \E s \in 0..200 : s * s = Len2(p[i], p[i + 1])
(* min over segments of the rational squared distance *)
RECURSIVE MinD2(_, _, _)
MinD2(q, p, i) == IF i = Len(p) - 1 THEN Dist2PointSeg(q, p[i], p[i + 1])
                  ELSE LET a == Dist2PointSeg(q, p[i], p[i + 1])
                           b == MinD2(q, p, i + 1)
                       IN IF RatLess(a, b) THEN a ELSE b
=============================================================================

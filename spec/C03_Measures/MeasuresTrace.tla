----------------------------- MODULE MeasuresTrace -----------------------------
(* Trace spec for C03.  A "shape" recording carries a base shape (valid, decided by TLC when it was generated
   and re-checked here) and one spelling of it; the event has the real measures of the *spelled* geometry:
     area2    Polygon / MultiPolygon .Area() x 2           (any spelling)
     cen      MultiPolygon.Centroid() x K                  (closed rings, any orientation per ring)
     pcen     Polygon.Centroid() x K (one-member shapes)   (closed rings, holes opposite to the shell)
     oparea2, opcen   package op                           (same restriction as pcen)
   every expectation is the invariant of the base shape. *)
EXTENDS Measures, TraceIO
VARIABLE cs
Near(a, b) == AbsI(a - b) <= 1
ShapeOk(e) ==
    LET sh == cs.base
        A2 == TrueArea2(sh)
        closed == AllClosed(cs.spelled)
        cons == Consistent(cs.spelled)
        cenok(v) == CenClose(v[1], CenNum(sh, 1), CenDen(sh)) /\ CenClose(v[2], CenNum(sh, 2), CenDen(sh))
    IN /\ e.ev = "measure" /\ e.out = "ok"
       /\ ValidShape(sh)
       /\ e.area2exact /\ e.area2 = A2
       /\ (closed => cenok(e.cen))
       /\ (closed /\ cons /\ Len(sh) = 1 => cenok(e.pcen) /\ cenok(e.opcen))
       /\ (cons => e.oparea2 = A2)
LineOk(e) ==
    LET d2 == MinD2(cs.q, cs.path, 1) IN
    /\ e.ev = "line" /\ e.out = "ok"
    /\ IntegerSegments(cs.path)
    /\ e.lenexact /\ e.len = PathLen(cs.path, 1) /\ e.oplen = e.len /\ e.mllen = e.len + PathLen(SubSeq(cs.path, 1, 2), 1)    \* multi-line string of the path and its first segment
    /\ AbsI(e.d2K * d2[2] - d2[1] * K) <= 2 * d2[2]            \* Distance(q)^2 within 2/K
    /\ e.mld2K = e.d2K
LenOk(e) == /\ e.ev = "line" /\ e.out = "ok" /\ IntegerSegments(cs.path)
            /\ e.lenexact /\ e.len = PathLen(cs.path, 1) /\ e.oplen = e.len /\ e.mllen = e.len + PathLen(SubSeq(cs.path, 1, 2), 1)
BoxOk(e) == /\ e.ev = "box" /\ e.out = "ok"
            /\ e.cen2 = <<cs.min[1] + cs.max[1], cs.min[2] + cs.max[2]>>                 \* twice the centre, exactly
            /\ (cs.sh < 100 => e.area = (cs.max[1] - cs.min[1]) * (cs.max[2] - cs.min[2]))
BufferOk(e) ==
    LET r2K == cs.r * cs.r * 1000000 IN        \* Buffer observations are quantised to 1e-6
    /\ e.ev = "buffer" /\ e.out = "ok"
    /\ e.count = cs.n /\ e.firstexact
    /\ \A i \in 1..Len(e.dist2K) : AbsI(e.dist2K[i] - r2K) <= 1                     \* on the requested circle
    /\ \A i \in 1..Len(e.chord2K), j \in 1..Len(e.chord2K) : AbsI(e.chord2K[i] - e.chord2K[j]) <= 2     \* equal sides
    /\ \A i \in 1..Len(e.turns) : e.turns[i] = 1                                    \* counter-clockwise, convex
    /\ cs.n * cs.n * e.chord2K[1] <= 40 * r2K                                       \* perimeter < 2 pi r: winds once
(* Distance to a long segment from a point very close to it: the error of the real answer, measured by the harness against
   the exact squared distance of the case (recomputed here), stays below 1e-10 of the coordinate size *)
NearOk(e) == /\ e.ev = "near" /\ e.out = "ok"
             /\ cs.d2 = Dist2PointSeg(cs.q, cs.path[1], cs.path[2])
             /\ e.errscale12 <= 100 /\ e.mlerrscale12 <= 100
Ok(e) == CASE cs.kind = "shape" -> ShapeOk(e) [] cs.kind = "near" -> NearOk(e) [] cs.kind = "line" -> LineOk(e) [] cs.kind = "len" -> LenOk(e) [] cs.kind = "box" -> BoxOk(e) [] cs.kind = "buffer" -> BufferOk(e) [] OTHER -> FALSE
Apply(e) == UNCHANGED cs
Reset(e) == cs' = e
Keep == UNCHANGED cs
TraceInit == TInit /\ cs = [kind |-> "none"]
TraceNext == TStep(Ok, Apply, Reset, Keep)
TraceSpec == TraceInit /\ [][TraceNext]_<<l, fails, cs>>
=============================================================================

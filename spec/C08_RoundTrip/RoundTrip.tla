-------------------------------- MODULE RoundTrip --------------------------------
(* C08 - every supported projection inverts (reduced claim, see DESIGN.md section 6). *)
(* A configuration is [proj, sphere, datum, unit, pm, south]:                          *)
(*   proj   longlat | merc | lcc | aea | eqdc | tmerc | utm | krovak                   *)
(*   datum  "none" | "wgs84" (a name that is WGS84-equivalent) | "p3" | "p7"           *)
(*   unit   "m" | "ft" | "us-ft";  pm "greenwich" | "other";  south (utm only)         *)
(* R2: the pipeline of SR.NewTransform's closure as a WORD of stage symbols            *)
(*     (unit, inverse projection, prime meridian, datum shift or the two-leg route     *)
(*     through WGS84, prime meridian, forward projection, unit) with formal inverses;  *)
(*     TLC checks for every configuration P that WGS84 -> P followed by P -> WGS84     *)
(*     reduces to the empty word - the structural reason the round trip can hold -     *)
(*     and lists the configuration pairs for which it does not (a datum-less system    *)
(*     against a shifted one).                                                         *)
(* R1 on observations: for each sample position the harness reports                    *)
(*     |lon' - lon|, |lat' - lat| in units of 1e-9 degree and |x'' - x|, |y'' - y| in  *)
(*     micrometres; the property demands <= 1e-6 degree and <= 1 cm, and no error.      *)
EXTENDS Integers, Sequences, FiniteSets, TLC

Projs == {"longlat", "merc", "lcc", "aea", "eqdc", "tmerc", "utm", "krovak"}
Datums == {"none", "wgs84", "p3", "p7"}
WGS == [proj |-> "longlat", sphere |-> FALSE, datum |-> "wgs84", unit |-> "m", pm |-> "greenwich", south |-> FALSE]
Configs == {c \in [proj : Projs, sphere : BOOLEAN, datum : Datums, unit : {"m", "ft", "us-ft"}, pm : {"greenwich", "other"}, south : BOOLEAN] :
              /\ (c.south => c.proj = "utm")
              /\ (c.proj = "longlat" => c.unit = "m")
              /\ (c.proj = "krovak" => ~c.sphere /\ c.datum \in {"none", "p3"})          \* Krovak fixes its own ellipsoid
              /\ (c.sphere => c.datum = "none")}

S(k, a) == [k |-> k, a |-> a]
(* checkNotWGS(a, b): a has a 3/7-parameter datum and b's DatumCode is not the literal WGS84 *)
IsWGSName(c) == c = WGS
Hop(a, b) == a.datum \in {"p3", "p7"} /\ ~IsWGSName(b)
SameDatum(a, b) == a.datum = b.datum /\ a.sphere = b.sphere           \* compare_datums (same type, same ellipsoid, same parameters)
(* one leg without the WGS84 workaround *)
Leg(a, b) ==
    (IF a.proj = "longlat" THEN <<S("deg2rad", "")>> ELSE <<S("tometer", a.unit), S("inv", a.proj)>>)
    \o (IF a.pm = "other" THEN <<S("+pm", "")>> ELSE <<>>)
    \o (IF SameDatum(a, b) \/ a.datum = "none" \/ b.datum = "none" THEN <<>> ELSE <<S("shift", <<a.datum, a.sphere, b.datum, b.sphere>>)>>)
    \o (IF b.pm = "other" THEN <<S("-pm", "")>> ELSE <<>>)
    \o (IF b.proj = "longlat" THEN <<S("rad2deg", "")>> ELSE <<S("fwd", b.proj), S("frommeter", b.unit)>>)
Word(a, b) == IF Hop(a, b) \/ Hop(b, a) THEN Leg(a, WGS) \o Leg(WGS, b) ELSE Leg(a, b)

Inverse(x, y) == \/ (x.k = "fwd" /\ y.k = "inv" /\ x.a = y.a) \/ (x.k = "inv" /\ y.k = "fwd" /\ x.a = y.a)
                 \/ (x.k = "frommeter" /\ y.k = "tometer" /\ x.a = y.a) \/ (x.k = "tometer" /\ y.k = "frommeter" /\ x.a = y.a)
                 \/ (x.k = "rad2deg" /\ y.k = "deg2rad") \/ (x.k = "deg2rad" /\ y.k = "rad2deg")
                 \/ (x.k = "-pm" /\ y.k = "+pm") \/ (x.k = "+pm" /\ y.k = "-pm")
                 \/ (x.k = "shift" /\ y.k = "shift" /\ x.a = <<y.a[3], y.a[4], y.a[1], y.a[2]>>)
RECURSIVE Reduce(_)
Reduce(w) == IF \E i \in 1..(Len(w) - 1) : Inverse(w[i], w[i + 1])
             THEN LET i == CHOOSE j \in 1..(Len(w) - 1) : Inverse(w[j], w[j + 1])
                  IN Reduce(SubSeq(w, 1, i - 1) \o SubSeq(w, i + 2, Len(w)))
             ELSE w
RoundTripsTo(a, b) == Reduce(Word(a, b) \o Word(b, a)) = <<>>

VARIABLE cfg
Init == cfg \in Configs
Spec == Init /\ [][UNCHANGED cfg]_cfg
(* the pairs the property is about: plain WGS84 long/lat against every configuration, both ways round *)
GeographicRoundTrip == RoundTripsTo(WGS, cfg) /\ RoundTripsTo(cfg, WGS)
(* NOT an invariant: two arbitrary systems need not round-trip (exhibits the datum-less vs shifted pairs) *)
AnyPairRoundTrip == \A other \in Configs : RoundTripsTo(cfg, other)
=============================================================================

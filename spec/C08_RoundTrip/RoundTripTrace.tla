----------------------------- MODULE RoundTripTrace -----------------------------
(* Trace spec for C08: for one configuration (instantiated with seeded concrete parameters) the real transformers
   WGS84 -> P and P -> WGS84 were applied to sample positions of the usable region; the event carries the largest
   deviations as integers. *)
EXTENDS RoundTrip, TraceIO
VARIABLE cs
Ok(e) == /\ e.ev = "rt" /\ e.out = "ok" /\ e.err = ""                  \* no error anywhere inside the usable region
         /\ cs.cfg \in Configs /\ RoundTripsTo(WGS, cs.cfg)             \* structurally invertible
         /\ e.n >= 1
         /\ e.maxdeg9 >= 0 /\ e.maxdeg9 <= 1000                          \* lon / lat back to within 1e-6 degree
         /\ e.maxxyum >= 0 /\ e.maxxyum <= 10000                         \* projected coordinates reproduced to within a centimetre
Apply(e) == UNCHANGED cs
Reset(e) == cs' = e
Keep == UNCHANGED cs
TraceInit == TInit /\ cs = [kind |-> "none"] /\ cfg = 0
TraceNext == TStep(Ok, Apply, Reset, Keep) /\ UNCHANGED cfg
TraceSpec == TraceInit /\ [][TraceNext]_<<l, fails, cs, cfg>>
=============================================================================

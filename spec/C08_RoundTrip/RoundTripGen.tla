------------------------------ MODULE RoundTripGen ------------------------------
EXTENDS RoundTrip, Json
VARIABLE c
GenInit == /\ cfg \in Configs
           /\ c = [kind |-> "rt", cfg |-> cfg, word |-> Word(WGS, cfg)]
           /\ PrintT(ToJson(c))
GenSpec == GenInit /\ [][UNCHANGED <<cfg, c>>]_<<cfg, c>>
=============================================================================

-------------------------------- MODULE PolyOps --------------------------------
(* C01 - polygon boolean operations have point-set semantics.                   *)
(* All coordinates here are DOUBLED lattice coordinates (the harness halves     *)
(* them), so that cell centres and quarter-lattice sample points are integers.  *)
(*                                                                              *)
(* R1: a point q off both boundaries lies in A op B iff Bool(op)(q in A, q in B)*)
(*     with membership by the exact even-odd rule over all rings of all member  *)
(*     polygons.                                                                *)
(* Family F1 (rectilinear): A on even, B on odd lattice lines, so every unit    *)
(*     cell is wholly inside or outside both operands *and* (the result having  *)
(*     integer vertices) the result: comparing all cell centres decides the     *)
(*     result region, its area and its emptiness exactly.                       *)
(* Family F2 (general position lattice triangles / quadrilaterals): membership  *)
(*     of sample points in the result is observed by the harness; TLC keeps     *)
(*     only samples with an exact clear margin from every operand edge.         *)
(* R2 (small): the dispatch of Bounds.Intersection - box/box shortcut,          *)
(*     "argument inside the box" shortcut, no overlap -> nil - as a case table. *)
EXTENDS Lattice, TLC

Ops == {"Intersection", "Union", "Difference", "XOr"}
Bool(op, a, b) == CASE op = "Intersection" -> a /\ b
                    [] op = "Union" -> a \/ b
                    [] op = "Difference" -> a /\ ~b
                    [] op = "XOr" -> a # b

(* an operand is a sequence of polygons, a polygon a sequence of rings *)
AllRingsOf(polys) == LET RECURSIVE Cat(_)
                         Cat(i) == IF i > Len(polys) THEN <<>> ELSE polys[i] \o Cat(i + 1)
                     IN Cat(1)
InOperand(q, polys) == InRings(q, AllRingsOf(polys))
InOp(op, q, A, B) == Bool(op, InOperand(q, A), InOperand(q, B))

RingClosed(r) == Len(r) >= 1 /\ r[1] = r[Len(r)]

(* squared distance (rational) from q to the nearest edge of the operands; margin m2 is a squared length *)
EdgeFar(q, r, m2) == \A i \in 1..Len(r) : ~RatLeq(Dist2PointSeg(q, r[i], RingNext(r, i)), m2)
ClearMargin(q, A, B, m2) == \A r \in {AllRingsOf(A)[i] : i \in 1..Len(AllRingsOf(A))} \cup {AllRingsOf(B)[i] : i \in 1..Len(AllRingsOf(B))} : EdgeFar(q, r, m2)

(* ------------------------------------------------------------------ validity / general position (F2 domain filter) *)
RingEdge(r, i) == <<r[i], RingNext(r, i)>>
SimpleRing(r) == /\ Len(r) >= 3 /\ Area2(r) # 0
                 /\ \A i \in 1..Len(r) : r[i] # RingNext(r, i)
                 /\ \A i \in 1..Len(r), j \in 1..Len(r) :
                      LET adjacent == j = (i % Len(r)) + 1 \/ i = (j % Len(r)) + 1
                      IN i < j => IF adjacent
                                  THEN (* share exactly the common vertex *)
                                       LET common == IF j = (i % Len(r)) + 1 THEN r[j] ELSE r[i]
                                           a == IF j = (i % Len(r)) + 1 THEN r[i] ELSE RingNext(r, i)
                                           b == IF j = (i % Len(r)) + 1 THEN RingNext(r, j) ELSE r[j]
                                       IN ~OnSegment(a, common, b) /\ ~OnSegment(b, common, a)
                                  ELSE ~SegsMeet(r[i], RingNext(r, i), r[j], RingNext(r, j))
(* no vertex of one ring on the other, no collinear overlapping edges: crossings are proper *)
GeneralPositionRings(r, s) ==
    /\ \A i \in 1..Len(r) : ~OnRing(r[i], s)
    /\ \A j \in 1..Len(s) : ~OnRing(s[j], r)

(* ------------------------------------------------------------------ F1 *)
Box(x1, y1, x2, y2) == << <<x1, y1>>, <<x2, y1>>, <<x2, y2>>, <<x1, y2>> >>
(* cell centres (odd doubled coordinates) of the window 0..W (doubled) *)
Centres(W) == {<<x, y>> : x \in {k \in 0..W : k % 2 = 1}, y \in {k \in 0..W : k % 2 = 1}}
F1ResultOK(op, A, B, rings, W) == \A q \in Centres(W) : InRings(q, rings) = InOp(op, q, A, B)
TrueAreaCells(op, A, B, W) == Cardinality({q \in Centres(W) : InOp(op, q, A, B)})

(* ------------------------------------------------------------------ R2: Bounds.Intersection dispatch, box operands *)
(* boxes as <<x1, y1, x2, y2>> with x1 < x2, y1 < y2 *)
BoxWithin(a, b) == IF a = b THEN "OnEdge" ELSE IF a[1] >= b[1] /\ a[2] >= b[2] /\ a[3] <= b[3] /\ a[4] <= b[4] THEN "Inside" ELSE "Outside"
BBIntersection(b, bp) ==          \* receiver Bounds, argument Bounds: the special case
    LET i == <<MaxI(b[1], bp[1]), MaxI(b[2], bp[2]), MinI(b[3], bp[3]), MinI(b[4], bp[4])>>
    IN IF i[1] >= i[3] \/ i[2] >= i[4] THEN <<>> ELSE i
BBTrue(b, bp) == LET lox == MaxI(b[1], bp[1])  loy == MaxI(b[2], bp[2])  hix == MinI(b[3], bp[3])  hiy == MinI(b[4], bp[4])
                 IN IF lox < hix /\ loy < hiy THEN <<lox, loy, hix, hiy>> ELSE <<>>
=============================================================================

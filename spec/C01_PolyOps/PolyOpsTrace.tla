----------------------------- MODULE PolyOpsTrace -----------------------------
(* Trace spec for C01: one boolean operation on the real code per recording.   *)
(*  f1: e.rings = all rings of the result (doubled integer coordinates); every *)
(*      cell centre is classified exactly on both sides.                       *)
(*  f2: e.pts / e.inres = sample points (x4 coordinates) and whether the       *)
(*      harness found them inside the result; only samples with a clear margin *)
(*      from every operand edge are compared.                                  *)
EXTENDS PolyOps, TraceIO
VARIABLE cs
ClosedOK(e) == cs.ta \in {"Polygon", "MultiPolygon", "PolygonFlat", "PolygonHoleFirst"} => \A i \in 1..Len(e.rings) : RingClosed(e.rings[i])
F1Ok(e) == /\ e.ev = "op" /\ e.out = "ok" /\ e.integral
           /\ ClosedOK(e)
           /\ F1ResultOK(cs.op, cs.A, cs.B, e.rings, cs.w)
F2Ok(e) == /\ e.ev = "op" /\ e.out = "ok"
           /\ ClosedOK(e)
           /\ Len(e.inres) = (cs.w + 3) * (cs.w + 3)
           /\ \A i \in 1..Len(e.inres) :
                LET q == <<((i - 1) \div (cs.w + 3)) - 1, ((i - 1) % (cs.w + 3)) - 1>>      \* x outer, y inner, from -1 to w+1
                IN ClearMargin(q, cs.A, cs.B, 1) => e.inres[i] = InOp(cs.op, q, cs.A, cs.B)
(* e.again: the same two values were then passed to all four operations and to this one once more; the last result is the
   same set of rings as the first (every one of those calls is an instance of the property) *)
Ok(e) == (IF cs.kind = "f1" THEN F1Ok(e) ELSE F2Ok(e)) /\ e.again /\ e.inputsame      \* (inputsame: the operands are still the values they were)
Apply(e) == UNCHANGED cs
Reset(e) == cs' = e
Keep == UNCHANGED cs
TraceInit == TInit /\ cs = [kind |-> "none"]
TraceNext == TStep(Ok, Apply, Reset, Keep)
TraceSpec == TraceInit /\ [][TraceNext]_<<l, fails, cs>>
=============================================================================

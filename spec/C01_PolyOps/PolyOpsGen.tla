------------------------------ MODULE PolyOpsGen ------------------------------
(* Case generator for C01. *)
EXTENDS PolyOps, Json
CONSTANTS NA, NB,          \* A uses doubled coordinates {0,4,..,4*NA}, B uses {2,6,..,2+4*(NB-1)}
          MT,              \* thinning of the receiver/argument type matrix (1 = all nine combinations)
          F2N, MF2, MP2,   \* F2: lattice 0..F2N (undoubled), thinning factors for rings and for pairs
          NBB, MTW         \* F1B: odd lattice {2,..,2+4*(NBB-1)} for the *Bounds dispatch family; thinning of its two-box partners
VARIABLE c
EvenC == {4 * k : k \in 0..NA}
OddC == {2 + 4 * k : k \in 0..(NB - 1)}
Inside(h, s) == s[1][1] < h[1][1] /\ s[1][2] < h[1][2] /\ h[3][1] < s[3][1] /\ h[3][2] < s[3][2]
Apart(a, b) == a[3][1] < b[1][1] \/ b[3][1] < a[1][1] \/ a[3][2] < b[1][2] \/ b[3][2] < a[1][2]
ShapesOn(S) == LET bs == TLCEval({Box(x1, y1, x2, y2) : x1 \in S, y1 \in S, x2 \in S, y2 \in S})
                   ok == TLCEval({b \in bs : b[1][1] < b[3][1] /\ b[1][2] < b[3][2]})
               IN [box |-> {<< <<b>> >> : b \in ok},
                   holed |-> {<< <<p[1], p[2]>> >> : p \in {q \in ok \X ok : Inside(q[2], q[1])}},
                   two |-> {<< <<p[1]>>, <<p[2]>> >> : p \in {q \in ok \X ok : Apart(q[1], q[2]) /\ q[1][1][1] <= q[2][1][1]}}]
(* "PolygonFlat": all rings of all members in one Polygon value (two disjoint shells - what the operations themselves return
   for multi-part results); "PolygonHoleFirst": the hole listed before its shell.  The region is the same (even-odd). *)
TypesFor(kind) == CASE kind = "box" -> {"Polygon", "MultiPolygon", "Bounds"}
                    [] kind = "holed" -> {"Polygon", "MultiPolygon", "PolygonHoleFirst"}
                    [] kind = "two" -> {"MultiPolygon", "PolygonFlat"}
RECURSIVE HashP(_, _)
HashP(r, a) == IF a > Len(r) THEN 0 ELSE (r[a][1] * 7 + r[a][2] * 13 + a * 3 + 5 * HashP(r, a + 1)) % 1009
RECURSIVE HashQ(_, _)
HashQ(r, a) == IF a > Len(r) THEN 1 ELSE (r[a][1] * 17 + r[a][2] * 5 + a * 11 + 3 * HashQ(r, a + 1)) % 997
HashS(polys) == HashP(AllRingsOf(polys)[1], 1) + 31 * Len(AllRingsOf(polys)) + (IF Len(AllRingsOf(polys)) > 1 THEN HashP(AllRingsOf(polys)[2], 1) ELSE 0)
SA == ShapesOn(EvenC)
SB == ShapesOn(OddC)
Kinds == {"box", "holed", "two"}
F1K(ka, kb) == { [kind |-> "f1", op |-> op, A |-> a, B |-> b, ta |-> ta, tb |-> tb, w |-> 4 * NA] :
                   op \in Ops, a \in SA[ka], b \in SB[kb], ta \in TypesFor(ka), tb \in TypesFor(kb) }
F1 == UNION {F1K(ka, kb) : ka \in Kinds, kb \in Kinds}
F1Thin == {x \in F1 : (HashS(x.A) + 3 * HashS(x.B) + (IF x.ta = "Polygon" THEN 1 ELSE IF x.ta = "Bounds" THEN 2 ELSE 0)
                        + (IF x.tb = "Polygon" THEN 5 ELSE IF x.tb = "Bounds" THEN 7 ELSE 0)) % MT = 0}
(* F1B: the *Bounds dispatch.  A rectangle meets a holed box or a pair of boxes on the other lattice; for every partner Y
   and every pattern of the rectangle's four corners with respect to Y (in / out), the smallest and the largest rectangle
   showing that pattern are taken, in both argument positions, for all four operations. *)
OddCB == {2 + 4 * k : k \in 0..(NBB - 1)}
WB == IF 4 * NA > 4 * NBB THEN 4 * NA ELSE 4 * NBB
SBB == ShapesOn(OddCB)
CornerPat(b, Y) == <<InOperand(b[1], Y), InOperand(b[2], Y), InOperand(b[3], Y), InOperand(b[4], Y)>>
BoxArea(b) == (b[3][1] - b[1][1]) * (b[3][2] - b[1][2])
BoxKey(b) == BoxArea(b) * 4096 + b[1][1] * 256 + b[1][2] * 16 + (b[3][1] % 16)
Reps(SX, Y) == LET bs == {x[1][1] : x \in SX.box}
                   pats == {CornerPat(b, Y) : b \in bs}
                   lo(pt) == CHOOSE b \in bs : CornerPat(b, Y) = pt /\ \A b2 \in bs : CornerPat(b2, Y) = pt => BoxKey(b) <= BoxKey(b2)
                   hi(pt) == CHOOSE b \in bs : CornerPat(b, Y) = pt /\ \A b2 \in bs : CornerPat(b2, Y) = pt => BoxKey(b) >= BoxKey(b2)
               IN {lo(pt) : pt \in pats} \cup {hi(pt) : pt \in pats}
Partners(SY) == [holed |-> SY.holed, two |-> {y \in SY.two : HashS(y) % MTW = 0}]
F1BRecv(ky) == UNION { { [kind |-> "f1", op |-> op, A |-> << <<b>> >>, B |-> y, ta |-> "Bounds", tb |-> tb, w |-> WB] :
                            op \in Ops, b \in Reps(SA, y), tb \in TypesFor(ky) } : y \in Partners(SBB)[ky] }
F1BArg(ky) == UNION { { [kind |-> "f1", op |-> op, A |-> y, B |-> << <<b>> >>, ta |-> ta, tb |-> "Bounds", w |-> WB] :
                           op \in Ops, b \in Reps(SBB, y), ta \in TypesFor(ky) } : y \in Partners(SA)[ky] }
F1B == IF NBB = 0 THEN {} ELSE F1BRecv("holed") \cup F1BRecv("two") \cup F1BArg("holed") \cup F1BArg("two")
(* F1C: containment.  A big box B = [2,18]^2 on the odd lattice contains a box, a holed box and a pair of boxes on the even
   lattice {4,8,12,16}; every type spelling on both sides, both argument positions, all four operations (the shortcuts that
   return an operand unchanged are taken here). *)
BigB == << <<Box(2, 2, 18, 18)>> >>
InA == [box |-> << <<Box(4, 4, 16, 16)>> >>, holed |-> << <<Box(4, 4, 16, 16), Box(8, 8, 12, 12)>> >>,
        two |-> << <<Box(4, 4, 8, 16)>>, <<Box(12, 4, 16, 8)>> >>]
F1C == UNION { { [kind |-> "f1", op |-> op, A |-> InA[k], B |-> BigB, ta |-> ta, tb |-> tb, w |-> 20] :
                    op \in Ops, ta \in TypesFor(k), tb \in TypesFor("box") } : k \in Kinds }
       \cup UNION { { [kind |-> "f1", op |-> op, A |-> BigB, B |-> InA[k], ta |-> ta, tb |-> tb, w |-> 20] :
                    op \in Ops, ta \in TypesFor("box"), tb \in TypesFor(k) } : k \in Kinds }
(* F1D: two *Bounds that do not meet - beside, above, below or diagonally apart, of any relative height and width - all four
   operations, both operands passed as *Bounds *)
F1D == { [kind |-> "f1", op |-> op, A |-> a, B |-> b, ta |-> t[1], tb |-> t[2], w |-> 4 * NA] :
           op \in Ops, a \in SA.box, b \in SB.box, t \in {<<"Bounds", "Bounds">>} }
F1DApart == {x \in F1D : Apart(x.A[1][1], x.B[1][1])}
(* F1E: an operand without any ring - a Polygon value that is nil (all rings of no members), an empty non-nil Polygon (the
   rings of a member that has none) and a MultiPolygon without members - in either argument position, against a box, a holed
   box and a pair of boxes, all four operations: the union and the symmetric difference are the other operand. *)
NoRings == {[v |-> <<>>, t |-> "PolygonFlat"], [v |-> <<>>, t |-> "MultiPolygon"], [v |-> << <<>> >>, t |-> "Polygon"], [v |-> << <<>> >>, t |-> "MultiPolygon"]}
F1E == UNION { { [kind |-> "f1", op |-> op, A |-> e.v, B |-> InA[k], ta |-> e.t, tb |-> tb, w |-> 20] :
                    op \in Ops, e \in NoRings, tb \in TypesFor(k) } : k \in Kinds }
       \cup UNION { { [kind |-> "f1", op |-> op, A |-> InA[k], B |-> e.v, ta |-> ta, tb |-> e.t, w |-> 20] :
                    op \in Ops, e \in NoRings, ta \in TypesFor(k) } : k \in Kinds }
(* F2: lattice triangles and quadrilaterals (coordinates x 4), valid and in general position *)
Grid2 == {<<4 * x, 4 * y>> : x \in 0..F2N, y \in 0..F2N}
Tri == TLCEval({r \in [1..3 -> Grid2] : HashP(r, 1) % MF2 = 0 /\ SimpleRing(r)})
Quad == TLCEval({r \in [1..4 -> Grid2] : HashP(r, 1) % (MF2 * 29) = 0 /\ SimpleRing(r)})
F2Pairs == TLCEval({p \in (Tri \cup Quad) \X (Tri \cup Quad) :
                      (HashQ(p[1], 1) * 31 + HashQ(p[2], 1)) % MP2 = 0 /\ p[1] # p[2] /\ GeneralPositionRings(p[1], p[2])})
F2 == { [kind |-> "f2", op |-> op, A |-> << <<p[1]>> >>, B |-> << <<p[2]>> >>, ta |-> ta, tb |-> tb, w |-> 4 * F2N] :
          op \in Ops, p \in F2Pairs, ta \in {"Polygon", "MultiPolygon"}, tb \in {"Polygon"} }
(* the same operations at other magnitudes (coordinates times 2^sh, exact) *)
Shifted == {[kind |-> x.kind, op |-> x.op, A |-> x.A, B |-> x.B, ta |-> x.ta, tb |-> x.tb, w |-> x.w, sh |-> s] :
               x \in {y \in F1Thin : (HashS(y.A) + HashS(y.B)) % 4 = 0}, s \in {-20, 24}}
GenInit == c \in F1Thin \cup F1B \cup F1C \cup F1DApart \cup F1E \cup Shifted \cup (IF F2N = 0 THEN {} ELSE F2) /\ PrintT(ToJson(c))
GenSpec == GenInit /\ [][UNCHANGED c]_c
=============================================================================

------------------------------ MODULE PolyOpsMC ------------------------------
(* Design-level check of the box/box shortcut of Bounds.Intersection against the true common rectangle,
   over all pairs of proper boxes on a small lattice (this is where the && / || slip showed). *)
EXTENDS PolyOps
CONSTANT N
VARIABLES a, b
BoxesN == {<<x1, y1, x2, y2>> : x1 \in 0..N, y1 \in 0..N, x2 \in 0..N, y2 \in 0..N}
Proper == {q \in BoxesN : q[1] < q[3] /\ q[2] < q[4]}
Init == a \in Proper /\ b \in Proper
Spec == Init /\ [][UNCHANGED <<a, b>>]_<<a, b>>
ShortcutOK == BBIntersection(a, b) = BBTrue(a, b)
=============================================================================

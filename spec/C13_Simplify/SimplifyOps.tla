----------------------------- MODULE SimplifyOps -----------------------------
(* C13 - Simplify.  R1: what an acceptable simplification of a curve is.      *)
(* R2 helpers: exact transcriptions of findIntersection / segMakesNotSimple.  *)
(* Tolerances are given squared (tol2).  The generators only use values of    *)
(* tol2 that no lattice point-segment distance can equal (0, or integers      *)
(* = 3 mod 4: neither a sum of two squares nor a rational square), so that    *)
(* `d > tol` is decided identically in floating point and in exact arithmetic.*)
EXTENDS Lattice

(* ------------------------------------------------------------------ R1 *)
(* out (a sequence of vertices) embeds into curve as an order-preserving subsequence: greedy leftmost embedding *)
RECURSIVE EmbedFrom(_, _, _, _)
EmbedFrom(curve, out, ci, oi) ==
    IF oi > Len(out) THEN <<>>
    ELSE IF ci > Len(curve) THEN <<0>>                      \* no embedding
    ELSE IF curve[ci] = out[oi] THEN <<ci>> \o EmbedFrom(curve, out, ci + 1, oi + 1)
    ELSE EmbedFrom(curve, out, ci + 1, oi)
Embed(curve, out) == EmbedFrom(curve, out, 1, 1)
IsSubsequence(curve, out) == LET e == Embed(curve, out) IN Len(e) = Len(out) /\ \A i \in 1..Len(e) : e[i] # 0

Distinct(curve) == \A i \in 1..Len(curve), j \in 1..Len(curve) : i # j => curve[i] # curve[j]

EndpointsKept(curve, out) ==
    IF Len(curve) = 0 THEN Len(out) = 0
    ELSE IF Len(curve) = 1 THEN out = curve
    ELSE Len(out) >= 2 /\ out[1] = curve[1] /\ out[Len(out)] = curve[Len(curve)]

(* every dropped vertex lies within tol of the output segment that replaces it
   (decided for curves without repeated vertices, where the embedding is unique;
    for closed rings the repeated closing vertex is matched last) *)
WithinTolIdx(curve, idx, tol2) ==
    \A s \in 1..(Len(idx) - 1) : \A k \in (idx[s] + 1)..(idx[s + 1] - 1) :
        RatLeq(Dist2PointSeg(curve[k], curve[idx[s]], curve[idx[s + 1]]), tol2)

(* index embedding that maps the last output vertex to the last input vertex (closed rings repeat a vertex) *)
EmbedLast(curve, out) ==
    IF Len(out) < 2 THEN Embed(curve, out)
    ELSE LET e == Embed(SubSeq(curve, 1, Len(curve) - 1), SubSeq(out, 1, Len(out) - 1))
         IN e \o <<Len(curve)>>

SimplifyOK(curve, tol2, out, closed) ==
    /\ IsSubsequence(curve, out)
    /\ EndpointsKept(curve, out)
    /\ LET inner == IF closed /\ Len(curve) > 1 THEN SubSeq(curve, 1, Len(curve) - 1) ELSE curve
       IN Distinct(inner) /\ Len(out) >= 2 => WithinTolIdx(curve, EmbedLast(curve, out), tol2)
SimplicityOK(curve, out) == Simple(curve) => Simple(out)

(* ------------------------------------------------------------------ R2 helpers *)
(* intersection.go findIntersection: number of intersection points (0, 1, 2) of closed segments *)
NumIntersections(p0, e0, p1, e1) ==
    LET d0 == <<e0[1] - p0[1], e0[2] - p0[2]>>
        d1 == <<e1[1] - p1[1], e1[2] - p1[2]>>
        E == <<p1[1] - p0[1], p1[2] - p0[2]>>
        kross == d0[1] * d1[2] - d0[2] * d1[1]
    IN IF kross # 0
       THEN LET sn == E[1] * d1[2] - E[2] * d1[1]          \* s = sn / kross
                tn == E[1] * d0[2] - E[2] * d0[1]          \* t = tn / kross
                In01(nm) == IF kross > 0 THEN 0 <= nm /\ nm <= kross ELSE kross <= nm /\ nm <= 0
            IN IF In01(sn) /\ In01(tn) THEN 1 ELSE 0
       ELSE LET kr2 == E[1] * d0[2] - E[2] * d0[1]
            IN IF kr2 # 0 THEN 0                            \* parallel, different lines
               ELSE (* same line: overlap of [0,1] with [smin,smax] in units of |d0|^2 *)
                    LET l0 == Sq(d0[1]) + Sq(d0[2])
                        s0 == d0[1] * E[1] + d0[2] * E[2]
                        s1 == s0 + d0[1] * d1[1] + d0[2] * d1[2]
                        smin == MinI(s0, s1)
                        smax == MaxI(s0, s1)
                    IN IF l0 = 0 THEN 2                     \* degenerate seg0: s0 = 0/0 is NaN, every comparison is false and the code falls through to "2"
                       ELSE IF l0 < smin \/ 0 > smax THEN 0
                       ELSE IF l0 = smin \/ 0 = smax THEN 1
                       ELSE 2

(* simplify.go segMakesNotSimple: segments that share an end point are a problem only if they also overlap along
   their length (two intersection points); any other pair must not meet at all *)
RECURSIVE NotSimpleFrom(_, _, _, _)
NotSimpleFrom(a, b, p, i) ==
    IF i > Len(p) - 1 THEN FALSE
    ELSE LET n == NumIntersections(a, b, p[i], p[i + 1])
             shared == a = p[i] \/ b = p[i + 1] \/ a = p[i + 1] \/ b = p[i]
         IN IF (shared /\ n > 1) \/ (~shared /\ n > 0) THEN TRUE
            ELSE NotSimpleFrom(a, b, p, i + 1)
SegMakesNotSimple(a, b, p) == NotSimpleFrom(a, b, p, 1)
=============================================================================

------------------------------- MODULE Simplify -------------------------------
(* R2: simplifyCurve (simplify.go) as a state machine, one action per loop    *)
(* iteration, with the code's variables i, j, k and out (`out` holds input    *)
(* indices, 1-based).  A candidate chord curve[i]..curve[m] is accepted only  *)
(* if it meets neither the output built so far, nor the remaining input from  *)
(* curve[m] on, nor another ring (NotSimple); otherwise the scan backs off to *)
(* a shorter chord.  The closing chord to the last vertex is subject to the   *)
(* same test (pc "endback").  Each step is a function of the state record so  *)
(* that the trace specification can also run the machine to completion.       *)
EXTENDS SimplifyOps, TLC

St(i, j, k, out, pc) == [i |-> i, j |-> j, k |-> k, out |-> out, pc |-> pc]
Start(curve) == IF Len(curve) = 0 THEN St(1, 0, 0, <<>>, "done")
                ELSE IF Len(curve) < 3 THEN St(1, 0, 0, <<>>, "short")
                ELSE St(1, 3, 0, <<1>>, "jhead")

OutPtsOf(curve, s) == [x \in 1..Len(s.out) |-> curve[s.out[x]]]
(* the closure notSimple(i, j) of the code, for a line string (no other rings) *)
NotSimple(curve, s, a, b) == \/ SegMakesNotSimple(curve[a], curve[b], OutPtsOf(curve, s))
                             \/ SegMakesNotSimple(curve[a], curve[b], SubSeq(curve, b, Len(curve)))

(* curves of one or two vertices are returned as they are *)
ShortF(curve, s) == [s EXCEPT !.out = [x \in 1..Len(curve) |-> x], !.pc = "done"]
JHeadF(curve, s) == IF s.j <= Len(curve) THEN [s EXCEPT !.k = s.i + 1, !.pc = "khead"]
                    ELSE [s EXCEPT !.pc = "done"]
KHeadF(curve, tol2, s) ==
    IF s.k < s.j
    THEN IF RatGt(Dist2PointSeg(curve[s.k], curve[s.i], curve[s.j]), tol2)
         THEN [s EXCEPT !.pc = "backoff"]
         ELSE [s EXCEPT !.k = s.k + 1]
    ELSE [s EXCEPT !.pc = "jtail"]
BackOffF(curve, s) ==
    IF s.j > s.i + 2 /\ NotSimple(curve, s, s.i, s.j - 1)
    THEN [s EXCEPT !.j = s.j - 1]
    ELSE [s EXCEPT !.i = s.j - 1, !.out = Append(s.out, s.j - 1), !.pc = "jtail"]
JTailF(curve, s) == IF s.j = Len(curve) THEN [s EXCEPT !.pc = "endback"] ELSE [s EXCEPT !.j = s.j + 1, !.pc = "jhead"]
(* the last vertex is added regardless of distance, but the closing chord backs off like any other *)
EndBackF(curve, s) ==
    IF s.j > s.i + 1 /\ NotSimple(curve, s, s.i, s.j)
    THEN [s EXCEPT !.j = s.j - 1]
    ELSE LET o1 == Append(s.out, s.j)
             o2 == IF s.j = Len(curve) - 1 THEN Append(o1, Len(curve)) ELSE o1
         IN [s EXCEPT !.out = o2, !.i = s.j, !.j = s.j + 2, !.pc = "jhead"]

StepF(curve, tol2, s) ==
    CASE s.pc = "short" -> ShortF(curve, s)
      [] s.pc = "jhead" -> JHeadF(curve, s)
      [] s.pc = "khead" -> KHeadF(curve, tol2, s)
      [] s.pc = "backoff" -> BackOffF(curve, s)
      [] s.pc = "jtail" -> JTailF(curve, s)
      [] s.pc = "endback" -> EndBackF(curve, s)
RECURSIVE RunF(_, _, _, _)
RunF(curve, tol2, s, fuel) == IF s.pc = "done" \/ fuel = 0 THEN s ELSE RunF(curve, tol2, StepF(curve, tol2, s), fuel - 1)
(* the output of the transcribed algorithm (vertex sequence), <<>> if it does not finish within the fuel *)
Documented(curve, tol2) ==
    LET n == Len(curve)
        s == RunF(curve, tol2, Start(curve), 4 * n * n * n + 16 * n + 16)
    IN IF s.pc = "done" THEN OutPtsOf(curve, s) ELSE <<>>

CONSTANTS Curves,      \* set of input curves (sequences of lattice vertices)
          Tol2s        \* set of squared tolerances
VARIABLES curve, tol2, st
vars == <<curve, tol2, st>>

Init == curve \in Curves /\ tol2 \in Tol2s /\ st = Start(curve)
Short == st.pc = "short" /\ st' = ShortF(curve, st) /\ UNCHANGED <<curve, tol2>>
JHead == st.pc = "jhead" /\ st' = JHeadF(curve, st) /\ UNCHANGED <<curve, tol2>>
KHead == st.pc = "khead" /\ st' = KHeadF(curve, tol2, st) /\ UNCHANGED <<curve, tol2>>
BackOff == st.pc = "backoff" /\ st' = BackOffF(curve, st) /\ UNCHANGED <<curve, tol2>>
JTail == st.pc = "jtail" /\ st' = JTailF(curve, st) /\ UNCHANGED <<curve, tol2>>
EndBack == st.pc = "endback" /\ st' = EndBackF(curve, st) /\ UNCHANGED <<curve, tol2>>
Next == Short \/ JHead \/ KHead \/ BackOff \/ JTail \/ EndBack
Spec == Init /\ [][Next]_vars /\ WF_vars(Next)

Terminates == <>(st.pc = "done")
OutBounded == Len(st.out) <= Len(curve) + 1
ResultOK == st.pc = "done" => SimplifyOK(curve, tol2, OutPtsOf(curve, st), FALSE)
(* a simple input stays simple (an invariant since the repair of the back-off rule, see DESIGN.md section 9.4) *)
SimplePreserved == st.pc = "done" => SimplicityOK(curve, OutPtsOf(curve, st))
=============================================================================

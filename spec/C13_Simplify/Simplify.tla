------------------------------- MODULE Simplify -------------------------------
(* R2: simplifyCurve (simplify.go) as a state machine, one action per loop    *)
(* iteration, with the code's variables i, j, k, out, breakTime, breakTime2.  *)
(* `out` holds input indices (1-based).  The slice expression out[0:i] of the *)
(* code reaches past len(out) into the zero-valued spare capacity; the model  *)
(* keeps that (ZeroPad), because it decides which candidate chords are        *)
(* rejected.  Each step is a function of the state record so that the trace   *)
(* specification can also run the machine to completion (RunF).               *)
EXTENDS SimplifyOps, TLC

St(i, j, k, out, bt, bt2, pc) == [i |-> i, j |-> j, k |-> k, out |-> out, bt |-> bt, bt2 |-> bt2, pc |-> pc]
Start(curve) == St(1, 0, 0, <<>>, FALSE, FALSE,
                   IF Len(curve) = 0 THEN "done" ELSE IF Len(curve) < 3 THEN "short" ELSE "outer")

OutPtsOf(curve, s) == [x \in 1..Len(s.out) |-> curve[s.out[x]]]
(* out[0:n] of the code: the first n slots of a slice whose capacity is len(curve) *)
ZeroPad(curve, s, n) == [x \in 1..n |-> IF x <= Len(s.out) THEN curve[s.out[x]] ELSE <<0, 0>>]

(* curves of one or two vertices are returned as they are *)
ShortF(curve, s) == [s EXCEPT !.out = [x \in 1..Len(curve) |-> x], !.pc = "done"]
OuterF(curve, s) == [s EXCEPT !.out = Append(s.out, s.i), !.bt = FALSE, !.j = s.i + 2, !.pc = "jhead"]
JHeadF(curve, s) == IF s.j <= Len(curve) THEN [s EXCEPT !.bt2 = FALSE, !.k = s.i + 1, !.pc = "khead"]
                    ELSE [s EXCEPT !.pc = IF s.bt THEN "done" ELSE "outer"]
KHeadF(curve, tol2, s) ==
    IF s.k < s.j
    THEN IF RatGt(Dist2PointSeg(curve[s.k], curve[s.i], curve[s.j]), tol2)
         THEN [s EXCEPT !.pc = "backoff"]
         ELSE [s EXCEPT !.k = s.k + 1]
    ELSE [s EXCEPT !.pc = "jtail"]
BackOffF(curve, s) ==
    IF s.j > s.i + 2 /\ ( \/ SegMakesNotSimple(curve[s.i], curve[s.j - 1], ZeroPad(curve, s, s.i - 1))
                          \/ SegMakesNotSimple(curve[s.i], curve[s.j - 1], SubSeq(curve, s.j, Len(curve))) )
    THEN [s EXCEPT !.j = s.j - 1]
    ELSE [s EXCEPT !.i = s.j - 1, !.out = Append(s.out, s.j - 1), !.bt2 = TRUE, !.pc = "jtail"]
JTailF(curve, s) ==
    LET s2 == IF s.j = Len(curve) THEN [s EXCEPT !.out = Append(s.out, s.j), !.bt = TRUE] ELSE s
    IN [s2 EXCEPT !.j = s.j + 1, !.pc = "jhead"]

StepF(curve, tol2, s) ==
    CASE s.pc = "short" -> ShortF(curve, s)
      [] s.pc = "outer" -> OuterF(curve, s)
      [] s.pc = "jhead" -> JHeadF(curve, s)
      [] s.pc = "khead" -> KHeadF(curve, tol2, s)
      [] s.pc = "backoff" -> BackOffF(curve, s)
      [] s.pc = "jtail" -> JTailF(curve, s)
RECURSIVE RunF(_, _, _, _)
RunF(curve, tol2, s, fuel) == IF s.pc = "done" \/ fuel = 0 THEN s ELSE RunF(curve, tol2, StepF(curve, tol2, s), fuel - 1)
(* the output of the documented algorithm (vertex sequence), <<>> if it does not finish within the fuel *)
Documented(curve, tol2) ==
    LET n == Len(curve)
        s == RunF(curve, tol2, Start(curve), 4 * n * n * n + 16 * n + 16)
    IN IF s.pc = "done" THEN OutPtsOf(curve, s) ELSE <<>>

CONSTANTS Curves,      \* set of input curves (sequences of lattice vertices)
          Tol2s        \* set of squared tolerances
VARIABLES curve, tol2, st
vars == <<curve, tol2, st>>

Init == curve \in Curves /\ tol2 \in Tol2s /\ st = Start(curve)
Short == st.pc = "short" /\ st' = ShortF(curve, st) /\ UNCHANGED <<curve, tol2>>
Outer == st.pc = "outer" /\ st' = OuterF(curve, st) /\ UNCHANGED <<curve, tol2>>
JHead == st.pc = "jhead" /\ st' = JHeadF(curve, st) /\ UNCHANGED <<curve, tol2>>
KHead == st.pc = "khead" /\ st' = KHeadF(curve, tol2, st) /\ UNCHANGED <<curve, tol2>>
BackOff == st.pc = "backoff" /\ st' = BackOffF(curve, st) /\ UNCHANGED <<curve, tol2>>
JTail == st.pc = "jtail" /\ st' = JTailF(curve, st) /\ UNCHANGED <<curve, tol2>>
Next == Short \/ Outer \/ JHead \/ KHead \/ BackOff \/ JTail
Spec == Init /\ [][Next]_vars /\ WF_vars(Next)

Terminates == <>(st.pc = "done")
OutBounded == Len(st.out) <= Len(curve) + 1
ResultOK == st.pc = "done" => SimplifyOK(curve, tol2, OutPtsOf(curve, st), FALSE)
(* NOT an invariant of the documented algorithm (see DESIGN.md, known finding C13): kept to exhibit witnesses *)
SimplePreserved == st.pc = "done" => SimplicityOK(curve, OutPtsOf(curve, st))
=============================================================================

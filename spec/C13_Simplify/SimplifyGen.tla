------------------------------ MODULE SimplifyGen ------------------------------
(* Case generator for C13: curves enumerated by TLC on small lattices. *)
EXTENDS SimplifyOps, Json, TLC
CONSTANTS G1, L1,      \* every curve of up to L1 vertices on the (G1+1)^2 lattice
          G2, L2, M2   \* curves of exactly L2 vertices on the (G2+1)^2 lattice, thinned by a factor M2
VARIABLE c
Grid(n) == {<<x, y>> : x \in 0..n, y \in 0..n}
NoRepeat(s) == \A a \in 1..(Len(s) - 1) : s[a] # s[a + 1]
RECURSIVE Hash(_, _)
Hash(s, a) == IF a > Len(s) THEN 0 ELSE (s[a][1] * 7 + s[a][2] * 13 + a * 3 + 5 * Hash(s, a + 1)) % 1009
Small == UNION {[1..n -> Grid(G1)] : n \in 0..L1}
Thin == {s \in [1..L2 -> Grid(G2)] : Hash(s, 1) % M2 = 0 /\ NoRepeat(s)}
Lines == [kind : {"line"}, curve : Small \cup Thin, tol2 : {0, 3, 7}]
(* the same property at other magnitudes: the harness multiplies coordinates and tolerance by 2^sh (exact in binary
   floating point) and divides the result again, so the oracle is unchanged while any absolute threshold inside the
   implementation meets coordinates of size 2^-10 .. 2^30 *)
Scaled == [kind : {"line"}, curve : {s \in Thin : Hash(s, 1) % (3 * M2) = 0}, tol2 : {3, 7}, sh : {-10, 30}]
(* shallow crossings: dropping the dip vertex would give a chord that a later, almost parallel segment crosses (crossing
   angle below 2 degrees), so the vertex has to stay; both axis orientations; simplicity of the input is decided by TLC *)
ShallowC(d, a, b, sw) == LET H == 40
                             pts == << <<0, H>>, <<50, H - d>>, <<100, H>>, <<100, H + 5>>, <<a, H + 1>>, <<b, H - 1>> >>
                         IN IF sw THEN [x \in 1..6 |-> <<pts[x][2], pts[x][1]>>] ELSE pts
Shallow == {[kind |-> "line", curve |-> ShallowC(d, a, b, sw), tol2 |-> d * d + 3] :
               d \in {10, 20, 30}, a \in {2, 10, 30}, b \in {98, 90, 66}, sw \in BOOLEAN}
(* closed rings and multi-geometries built from the small curves *)
Close(s) == IF Len(s) = 0 THEN s ELSE Append(s, s[1])
Rings == {Close(s) : s \in {t \in [1..3 -> Grid(G1)] : NoRepeat(t)} \cup {t \in [1..4 -> Grid(G1)] : Hash(t, 1) % 5 = 0 /\ NoRepeat(t)}}
(* rings spelled without the closing vertex (the library accepts them everywhere): first and last vertex are kept, the input is
   not modified - also when the rings of the polygon lie back to back in one array (the harness lays them out that way) *)
OpenRings == {t \in [1..4 -> Grid(G1)] : NoRepeat(t) /\ t[1] # t[4] /\ Hash(t, 1) % 60 = 1}
OpenPolys == [kind : {"polyopen"}, rings : {<<r>> : r \in OpenRings} \cup {<<r, q>> : r \in {x \in OpenRings : (Hash(x, 1) \div 60) % 5 = 0}, q \in {x \in OpenRings : (Hash(x, 1) \div 60) % 4 = 1}}, tol2 : {3, 7}]
Polys == [kind : {"poly"}, rings : {<<>>} \cup {<<r>> : r \in Rings} \cup {<<r, <<>>>> : r \in {x \in Rings : Hash(x, 1) % 7 = 0}}, tol2 : {0, 3}]      \* (<<>>: a polygon without rings)
Multis == [kind : {"multi"}, lines : {<<a, b>> : a \in {x \in Small : Hash(x, 1) % 11 = 0}, b \in {x \in Small : Hash(x, 1) % 13 = 1}}, tol2 : {3}]
(* multi-polygons of two one-ring members drawn from the same small lattice (so that one member's chords run through the
   other member's ring): each member must come out as it does on its own *)
Quads == {r \in Rings : Len(r) = 5}
MPolys == [kind : {"mpoly"}, polys : {<< <<a>>, <<b>> >> : a \in {x \in Quads : Hash(x, 1) % 37 = 0}, b \in {x \in Rings : Hash(x, 1) % 29 = 1}}
                                    \cup {<< <<b>>, <<a>> >> : a \in {x \in Quads : Hash(x, 1) % 37 = 1}, b \in {x \in Rings : Hash(x, 1) % 29 = 2}}
                                    \cup {<< <<a>>, <<>> >> : a \in {x \in Quads : Hash(x, 1) % 37 = 2}} \cup {<< <<>>, <<a>> >> : a \in {x \in Quads : Hash(x, 1) % 37 = 3}} \cup {<<>>}, tol2 : {3, 7}]
GenInit == c \in OpenPolys \cup MPolys \cup Lines \cup Scaled \cup {x \in Shallow : Simple(x.curve)} \cup Polys \cup Multis /\ PrintT(ToJson(c))
GenSpec == GenInit /\ [][UNCHANGED c]_c
=============================================================================

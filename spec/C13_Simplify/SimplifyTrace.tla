----------------------------- MODULE SimplifyTrace -----------------------------
(* Trace specification for C13: each recording is one Simplify call on the   *)
(* real code (run in the sandbox child, so that a hang or a runaway          *)
(* allocation is an ordinary outcome).  R1 = SimplifyOps.                     *)
EXTENDS SimplifyOps, TraceIO
D == INSTANCE Simplify WITH Curves <- {}, Tol2s <- {}, curve <- <<>>, tol2 <- 0, st <- 0
VARIABLES cs,
          known     \* rejected lines that match the known finding (see IsKnown)

LineOk(e) == /\ e.out = "ok" /\ e.inputsame
             /\ SimplifyOK(cs.curve, cs.tol2, e.res, FALSE)
             /\ SimplicityOK(cs.curve, e.res)
PolyOk(e) == /\ e.out = "ok" /\ e.inputsame /\ Len(e.res) = Len(cs.rings)
             /\ \A r \in 1..Len(cs.rings) : SimplifyOK(cs.rings[r], cs.tol2, e.res[r], TRUE)
MultiOk(e) == /\ e.out = "ok" /\ e.inputsame /\ Len(e.res) = Len(cs.lines)
              /\ \A m \in 1..Len(cs.lines) : /\ SimplifyOK(cs.lines[m], cs.tol2, e.res[m], FALSE)
                                             /\ e.res[m] = e.solo[m]        \* members are simplified independently
Ok(e) == e.ev = "simplify" /\ CASE cs.kind = "line" -> LineOk(e)
                                [] cs.kind = "poly" -> PolyOk(e)
                                [] cs.kind = "multi" -> MultiOk(e)
                                [] OTHER -> FALSE
(* Known finding C13-not-simple: the greedy algorithm as documented in Simplify.tla does not re-check the
   closing segment nor the segment adjacent to a new chord, so a simple line can come out self-touching.  A
   rejected line matches it only if everything else holds, the input is simple, the output is not, and the
   output is *exactly* what the documented algorithm yields on this input - any other non-simple output is a
   new violation. *)
IsKnown(e) == /\ e.ev = "simplify" /\ cs.kind = "line" /\ e.out = "ok" /\ e.inputsame
              /\ SimplifyOK(cs.curve, cs.tol2, e.res, FALSE)
              /\ ~SimplicityOK(cs.curve, e.res)
              /\ e.res = D!Documented(cs.curve, cs.tol2)
Apply(e) == UNCHANGED <<cs, known>>
Reset(e) == cs' = e /\ UNCHANGED known
Keep == UNCHANGED cs /\ known' = IF IsKnown(Trace[l]) THEN Append(known, l) ELSE known
TraceInit == TInit /\ cs = [kind |-> "none"] /\ known = <<>>
TraceNext == TStep(Ok, Apply, Reset, Keep)
TraceSpec == TraceInit /\ [][TraceNext]_<<l, fails, cs, known>>
Report == TReport /\ (l > Len(Trace) => PrintT(<<"KNOWN", known>>))
=============================================================================

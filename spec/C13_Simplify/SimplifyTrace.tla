----------------------------- MODULE SimplifyTrace -----------------------------
(* Trace specification for C13: each recording is one Simplify call on the   *)
(* real code (run in the sandbox child, so that a hang or a runaway          *)
(* allocation is an ordinary outcome).  R1 = SimplifyOps.                     *)
EXTENDS SimplifyOps, TraceIO
D == INSTANCE Simplify WITH Curves <- {}, Tol2s <- {}, curve <- <<>>, tol2 <- 0, st <- 0
VARIABLES cs,
          drift     \* lines of accepted line-string results (curves of <= 14 vertices) that differ from what the R2 transcription computes (informational)

LineOk(e) == /\ e.out = "ok" /\ e.inputsame
             /\ SimplifyOK(cs.curve, cs.tol2, e.res, FALSE)
             /\ SimplicityOK(cs.curve, e.res)
PolyOk(e) == /\ e.out = "ok" /\ e.inputsame /\ Len(e.res) = Len(cs.rings)
             /\ \A r \in 1..Len(cs.rings) : SimplifyOK(cs.rings[r], cs.tol2, e.res[r], TRUE)
PolyOpenOk(e) == /\ e.out = "ok" /\ e.inputsame /\ Len(e.res) = Len(cs.rings)
                 /\ \A r \in 1..Len(cs.rings) : SimplifyOK(cs.rings[r], cs.tol2, e.res[r], FALSE)
MultiOk(e) == /\ e.out = "ok" /\ e.inputsame /\ Len(e.res) = Len(cs.lines)
              /\ \A m \in 1..Len(cs.lines) : /\ SimplifyOK(cs.lines[m], cs.tol2, e.res[m], FALSE)
                                             /\ e.res[m] = e.solo[m]        \* members are simplified independently
MPolyOk(e) == /\ e.out = "ok" /\ e.inputsame /\ Len(e.res) = Len(cs.polys)
              /\ \A m \in 1..Len(cs.polys) : /\ Len(e.res[m]) = Len(cs.polys[m])
                                             /\ \A r \in 1..Len(cs.polys[m]) : SimplifyOK(cs.polys[m][r], cs.tol2, e.res[m][r], TRUE)
                                             /\ e.res[m] = e.solo[m]       \* members are simplified independently
Ok(e) == e.ev = "simplify" /\ CASE cs.kind = "line" -> LineOk(e)
                                [] cs.kind = "mpoly" -> MPolyOk(e)
                                [] cs.kind = "poly" -> PolyOk(e)
                                [] cs.kind = "polyopen" -> PolyOpenOk(e)
                                [] cs.kind = "multi" -> MultiOk(e)
                                [] OTHER -> FALSE
(* conformance of the code to the R2 transcription (Simplify.tla run to completion inside TLC): counted, never decisive *)
Drifted(e) == cs.kind = "line" /\ Len(cs.curve) <= 14 /\ e.res # D!Documented(cs.curve, cs.tol2)
Apply(e) == UNCHANGED cs /\ drift' = IF Drifted(e) THEN Append(drift, l) ELSE drift
Reset(e) == cs' = e /\ UNCHANGED drift
Keep == UNCHANGED <<cs, drift>>
TraceInit == TInit /\ cs = [kind |-> "none"] /\ drift = <<>>
TraceNext == TStep(Ok, Apply, Reset, Keep)
TraceSpec == TraceInit /\ [][TraceNext]_<<l, fails, cs, drift>>
Report == TReport /\ (l > Len(Trace) => PrintT(<<"DRIFT", drift>>))
=============================================================================

------------------------------ MODULE SimplifyMC ------------------------------
EXTENDS Simplify
CONSTANTS GridN, MaxLen
Grid == {<<x, y>> : x \in 0..GridN, y \in 0..GridN}
AllCurves == UNION {[1..n -> Grid] : n \in 0..MaxLen}
NoRepeat(c) == \A a \in 1..(Len(c) - 1) : c[a] # c[a + 1]
MCCurves == {c \in AllCurves : NoRepeat(c)}
MCTol2s == {0, 3, 7}
=============================================================================

-------------------------------- MODULE OpProps --------------------------------
(* X01 (extension, not one of the listed properties): package op's polygon utilities, specified with the same exact       *)
(* lattice oracles as C02 / C03.                                                                                          *)
(*   FixOrientation(g)   afterwards every shell winds counter-clockwise and every hole clockwise; a ring is either left   *)
(*                       as it was or reversed in place (same closed vertex cycle); applying it again changes nothing.    *)
(*   Within(point, pg)   for an orientation-consistent polygon with closed rings: true exactly when the point is inside   *)
(*                       or on the boundary (even-odd over all rings).                                                    *)
(*   PointOnSurface(pg)  returns the centroid when the centroid is inside or on the polygon, and otherwise the first      *)
(*                       vertex of the shell - in both cases a point of the closed region.                                *)
(* Inputs are the valid lattice shapes of Measures (validity asserted by TLC) in closed spellings.                        *)
EXTENDS Measures

(* ------------------------------------------------------------------ FixOrientation *)
IsCCW(r) == Area2(OpenR(r)) > 0
IsCW(r) == Area2(OpenR(r)) < 0
SameOrReversed(a, b) == b = a \/ b = RevSeq(a)
FixOK(before, after) ==
    /\ Len(after) = Len(before)
    /\ \A i \in 1..Len(before) : SameOrReversed(before[i], after[i])
    /\ IsCCW(after[1])
    /\ \A i \in 2..Len(after) : IsCW(after[i])           \* valid polygons nest one deep: every other ring is a hole of the shell

(* ------------------------------------------------------------------ Within(point, polygon) *)
(* query points are given in doubled coordinates (half-integer lattice); rings are doubled to match *)
Dbl(r) == [i \in 1..Len(r) |-> <<2 * r[i][1], 2 * r[i][2]>>]
DblRings(pg) == [i \in 1..Len(pg) |-> Dbl(OpenR(pg[i]))]
InOrOn(q2, pg) == InRings(q2, DblRings(pg)) \/ OnRings(q2, DblRings(pg))
(* the answers for the points (x/2, y/2), x outer and y inner, both from -1 to 2 n + 1 *)
WithinGrid(n) == LET w == 2 * n + 3 IN [k \in 1..(w * w) |-> <<((k - 1) \div w) - 1, ((k - 1) % w) - 1>>]
WithinOK(pg, n, ans) == LET pts == WithinGrid(n)
                        IN Len(ans) = Len(pts) /\ \A k \in 1..Len(pts) : OnRings(pts[k], DblRings(pg)) \/ ans[k] = InRings(pts[k], DblRings(pg))
                           \* boundary points are left open: the code documents 'true on the edge' but answers false on some edges (observation, DESIGN 9.7)

(* ------------------------------------------------------------------ PointOnSurface *)
(* position of the exact centroid N/D (per axis, common denominator D > 0) with respect to the polygon, decided by
   scaling the polygon by D *)
ScaleR(r, d) == [i \in 1..Len(r) |-> <<d * r[i][1], d * r[i][2]>>]
CentroidInOrOn(base) ==
    LET d == CenDen(<<base>>)
        c == <<CenNum(<<base>>, 1), CenNum(<<base>>, 2)>>
        rs == [i \in 1..Len(base) |-> ScaleR(base[i], d)]
    IN InRings(c, rs) \/ OnRings(c, rs)
PosOK(base, spelled, e) ==
    IF CentroidInOrOn(base)
    THEN CenClose(e.pt[1], CenNum(<<base>>, 1), CenDen(<<base>>)) /\ CenClose(e.pt[2], CenNum(<<base>>, 2), CenDen(<<base>>))
    ELSE e.first /\ e.pt = <<K * spelled[1][1][1][1], K * spelled[1][1][1][2]>>     \* spelled = <<polygon>>, polygon = <<rings>>
=============================================================================

----------------------------- MODULE OpPropsTrace -----------------------------
(* Trace spec for X01: recorded answers of op.FixOrientation / op.Within / op.PointOnSurface against OpProps. *)
EXTENDS OpProps, TraceIO
VARIABLE cs
FixOk(e) == /\ e.ev = "fix" /\ e.out = "ok" /\ e.err = ""
            /\ Len(e.after) = Len(cs.spelled)
            /\ \A p \in 1..Len(cs.spelled) : FixOK(cs.spelled[p], e.after[p])
            /\ e.again = e.after
WithinOk(e) == e.ev = "within" /\ e.out = "ok" /\ e.err = "" /\ ValidPolygon(cs.base) /\ WithinOK(cs.spelled[1], cs.n, e.ans)
PosOk(e) == e.ev = "pos" /\ e.out = "ok" /\ e.err = "" /\ ValidPolygon(cs.base) /\ PosOK(cs.base, cs.spelled, e)
Ok(e) == CASE cs.kind = "fix" -> FixOk(e) [] cs.kind = "within" -> WithinOk(e) [] cs.kind = "pos" -> PosOk(e) [] OTHER -> FALSE
Apply(e) == UNCHANGED cs
Reset(e) == cs' = e
Keep == UNCHANGED cs
TraceInit == TInit /\ cs = [kind |-> "none"]
TraceNext == TStep(Ok, Apply, Reset, Keep)
TraceSpec == TraceInit /\ [][TraceNext]_<<l, fails, cs>>
=============================================================================

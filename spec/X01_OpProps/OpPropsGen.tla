------------------------------ MODULE OpPropsGen ------------------------------
(* Case generator for X01: the shape catalogue of MeasuresGen plus shapes whose centroid lies outside the region, in
   closed spellings (every ring: reversed or not, three start vertices). *)
EXTENDS OpProps, Json
CONSTANTS MS
VARIABLE c
M == INSTANCE MeasuresGen WITH c <- c, MS <- MS
U1 == << <<0, 0>>, <<10, 0>>, <<10, 10>>, <<8, 10>>, <<8, 2>>, <<2, 2>>, <<2, 10>>, <<0, 10>> >>      \* a "U": centroid in the notch
HC == << <<2, 2>>, <<4, 2>>, <<4, 4>>, <<2, 4>> >>                                                   \* hole around the centre of S1
Polys1 == M!BasePolys \cup { <<U1>>, <<M!S1, HC>> }
ASSUME \A p \in Polys1 : ValidPolygon(p)
ClosedSpells == [rev : BOOLEAN, k : {0, 1, 2}, closed : {TRUE}]
SpelledPolys(pg) == {M!SpellPoly(pg, s) : s \in {x \in [1..Len(pg) -> ClosedSpells] : Len(pg) = 1 \/ M!HashSp(x) % MS = 0}}
FixCases == UNION {{[kind |-> "fix", base |-> pg, spelled |-> <<sp>>] : sp \in SpelledPolys(pg)} : pg \in Polys1}
            \cup {[kind |-> "fix", base |-> M!S1, spelled |-> <<M!SpellPoly(<<M!S1, M!H1a>>, s), M!SpellPoly(<<M!Shift(M!S3, 20, 0)>>, t)>>] :
                     s \in {x \in [1..2 -> ClosedSpells] : M!HashSp(x) % (3 * MS) = 0}, t \in [1..1 -> ClosedSpells]}
(* op.Within counts rings by winding direction: it is specified for normalised polygons (shell counter-clockwise, holes
   clockwise - what FixOrientation produces) *)
ConsistentClosed(sp) == Consistent(<<sp>>) /\ IsCCW(sp[1])
WithinCases == UNION {{[kind |-> "within", base |-> pg, spelled |-> <<sp>>, n |-> 12] : sp \in {x \in SpelledPolys(pg) : ConsistentClosed(x)}} : pg \in Polys1}
PosCases == UNION {{[kind |-> "pos", base |-> pg, spelled |-> <<sp>>] : sp \in {x \in SpelledPolys(pg) : ConsistentClosed(x)}} : pg \in Polys1}
GenInit == c \in FixCases \cup WithinCases \cup PosCases /\ PrintT(ToJson(c))
GenSpec == GenInit /\ [][UNCHANGED c]_c
=============================================================================

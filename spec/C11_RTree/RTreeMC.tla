------------------------------- MODULE RTreeMC -------------------------------
(* Model values for the exhaustive runs of RTree (cfg files cannot hold tuples). *)
EXTENDS RTree

(* pool A: three boxes in a row, a box touching two of them at a corner, a box coincident
   with object 1 (different identity), a degenerate point box; object 1 may be stored twice *)
PoolA == << <<0, 0, 1, 1>>, <<2, 0, 3, 1>>, <<4, 0, 5, 1>>, <<1, 1, 2, 2>>, <<0, 0, 1, 1>>, <<3, 3, 3, 3>> >>
MultA == <<2, 1, 1, 1, 1, 1>>
(* pool B: nine objects, enough for three levels with MaxC = 4 *)
PoolB == PoolA \o << <<5, 2, 6, 4>>, <<0, 3, 1, 5>>, <<2, 4, 2, 4>> >>
MultB == <<2, 1, 1, 1, 1, 1, 1, 1, 1>>
(* pool C: twelve objects (simulation only) *)
PoolC == PoolB \o << <<6, 0, 7, 1>>, <<4, 4, 5, 6>>, <<1, 6, 3, 7>> >>
MultC == <<2, 1, 1, 1, 1, 1, 1, 1, 1, 1, 1, 2>>
Pool5 == SubSeq(PoolA, 1, 5)
Mult5 == SubSeq(MultA, 1, 5)

MCQueries == {<<0, 0, 7, 7>>, <<1, 1, 1, 1>>, <<2, 0, 4, 0>>, <<8, 8, 9, 9>>, <<3, 1, 4, 3>>}
MCNNPts == {<<0, 0>>, <<3, 2>>, <<6, 1>>, <<2, 5>>}
MCKs == {1, 2, 3}
=============================================================================

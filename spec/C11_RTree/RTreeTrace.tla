------------------------------ MODULE RTreeTrace ------------------------------
(* Trace specification for C11/C12.  A recording is one history on one real  *)
(* tree: reset {minc, maxc, boxes}, then one event per Insert/Delete call.   *)
(* Every event carries op, o, ret (Delete's result), size, out; a *full*     *)
(* event adds depth, the structure snapshot taken through the verif hook,    *)
(* `same` (snapshot identical to the one before the call), and the answers   *)
(* of SearchIntersect / NearestNeighbor / NearestNeighbors for logged        *)
(* queries.  The verdict rests on R1 only (bag semantics + StructOK + the    *)
(* query oracles).  Conformance of the code to the R2 replica is measured    *)
(* separately (variable drift) and never decides anything.                   *)
EXTENDS RTreeOps, TraceIO

CONSTANT Focus
VARIABLES B,        \* pool of the current recording
          tbag,     \* R1 state: object id -> multiplicity
          prev,     \* last full snapshot [t |-> tree, h |-> depth] or Nil
          drift     \* number of full events whose snapshot differs from the R2 replica's prediction

NewBag(e) == IF e.op = "ins" THEN [tbag EXCEPT ![e.o] = @ + 1]
             ELSE IF tbag[e.o] > 0 THEN [tbag EXCEPT ![e.o] = @ - 1] ELSE tbag

LiteOk(e) == /\ e.ev = "op" /\ e.out = "ok"
             /\ e.o \in 1..Len(B)
             /\ e.op \in {"ins", "del"}
             /\ (e.op = "del" => e.ret = (tbag[e.o] > 0))
             /\ e.size = SumBag(NewBag(e), Len(B))

Full11(e) ==
    LET nb == NewBag(e) IN
    /\ StructOK(e.tree, e.depth, nb, B)
    /\ (e.op = "del" /\ tbag[e.o] = 0 => e.same)               \* a failed Delete changes nothing
    /\ \A i \in 1..Len(e.search) : /\ NoStray(e.search[i].r, Len(B))
                                   /\ SearchSpecOK(e.search[i].r, e.search[i].q, nb, B)
Full12(e) ==
    LET nb == NewBag(e) IN
    /\ \A i \in 1..Len(e.nn) : e.nn[i].out = "ok" /\ NNOK(e.nn[i].r, e.nn[i].p, nb, B)
    /\ \A i \in 1..Len(e.knn) : e.knn[i].out = "ok" /\ KNNOK(e.knn[i].r, e.knn[i].k, e.knn[i].p, nb, B)

(* Focus = "C11": calls, size, structure, search.  Focus = "C12": nearest-neighbour answers only  *)
(* (events after a panic of Insert/Delete belong to C11 and are passed over).                    *)
Ok(e) == IF Focus = "C11" THEN LiteOk(e) /\ (e.full => Full11(e))
         ELSE e.ev = "op" /\ (e.out = "ok" /\ e.full => Full12(e))

Predicted(e) == IF e.op = "ins" THEN DoInsert(prev.t, prev.h, e.o, B) ELSE DoDelete(prev.t, prev.h, e.o, B)
Drifted(e) == LET m == Predicted(e) IN ~(m.ok /\ m.root = e.tree /\ m.height = e.depth)

Apply(e) == /\ tbag' = NewBag(e)
            /\ UNCHANGED B
            /\ prev' = IF e.full THEN [t |-> e.tree, h |-> e.depth] ELSE Nil
            /\ drift' = IF e.full /\ prev # Nil /\ Drifted(e) THEN drift + 1 ELSE drift
Reset(e) == /\ B' = e.boxes /\ tbag' = [o \in 1..Len(e.boxes) |-> 0]
            /\ prev' = [t |-> Leaf(<<>>), h |-> 1] /\ UNCHANGED drift
Keep == UNCHANGED <<B, tbag, prev, drift>>

TraceInit == TInit /\ B = <<>> /\ tbag = <<>> /\ prev = Nil /\ drift = 0
TraceNext == TStep(Ok, Apply, Reset, Keep)
TraceSpec == TraceInit /\ [][TraceNext]_<<l, fails, B, tbag, prev, drift>>

Report == TReport /\ (l > Len(Trace) => PrintT(<<"DRIFT", drift>>))
=============================================================================

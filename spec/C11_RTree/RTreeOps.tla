------------------------------- MODULE RTreeOps -------------------------------
(* C11 / C12 - index/rtree.                                                  *)
(*                                                                          *)
(* R1 (oracle): the tree denotes a bag of objects; Size, SearchIntersect,    *)
(*   NearestNeighbor(s) are defined on the bag alone; the structure must be  *)
(*   balanced, with exact envelopes and bounded fan-out.                     *)
(* R2 (model): an executable replica of rtree.go over nested tree values     *)
(*   (no node identities, so isomorphic trees are one state): chooseNode,    *)
(*   split (pickSeeds / pickNext / assignGroup with the min-fill rule),      *)
(*   adjustTree as the return path of a recursive insert, findLeaf,          *)
(*   condenseTree with orphan re-insertion at level+1, root collapse; and    *)
(*   the nearest-neighbour searches with MINDIST ordering / MINMAXDIST       *)
(*   pruning.  All box arithmetic is integer, hence exact.                   *)
EXTENDS Integers, Sequences, FiniteSets, TLC

CONSTANTS MinC, MaxC       \* branching parameters, 2 <= MinC <= MaxC \div 2

Nil == [nil |-> TRUE]
Min2(a, b) == IF a < b THEN a ELSE b
Max2(a, b) == IF a > b THEN a ELSE b
Abs(x) == IF x < 0 THEN -x ELSE x
Area(b) == (b[3] - b[1]) * (b[4] - b[2])
Join(a, b) == <<Min2(a[1], b[1]), Min2(a[2], b[2]), Max2(a[3], b[3]), Max2(a[4], b[4])>>
Contains(a, b) == a[1] <= b[1] /\ a[2] <= b[2] /\ b[3] <= a[3] /\ b[4] <= a[4]   \* containsRect
Overlap(a, b) == ~(b[3] < a[1] \/ a[3] < b[1] \/ b[4] < a[2] \/ a[4] < b[2])      \* intersect (closed)
RECURSIVE MBRFrom(_, _)
MBRFrom(es, i) == IF i = Len(es) THEN es[i].bb ELSE Join(es[i].bb, MBRFrom(es, i + 1))
MBR(es) == IF Len(es) = 0 THEN <<0, 0, 0, 0>> ELSE MBRFrom(es, 1)                 \* computeBoundingBox
Remove(s, i) == SubSeq(s, 1, i - 1) \o SubSeq(s, i + 1, Len(s))
(* first index maximising f over 1..n (strict >, starting from -1), dflt if none *)
RECURSIVE ArgMaxR(_, _, _, _, _)
ArgMaxR(f, n, i, best, bi) == IF i > n THEN bi
                              ELSE IF f[i] > best THEN ArgMaxR(f, n, i + 1, f[i], i)
                              ELSE ArgMaxR(f, n, i + 1, best, bi)
ArgMax(f, n, dflt) == ArgMaxR(f, n, 1, -1, dflt)

Leaf(es) == [leaf |-> TRUE, level |-> 1, es |-> es]
Ent(bb, ch, obj) == [bb |-> bb, ch |-> ch, obj |-> obj]

(* ------------------------------------------------------------------ split *)
RECURSIVE PairAt(_, _, _, _, _)
PairAt(n, k, i, j, c) == IF c = k THEN <<i, j>>
                         ELSE IF j < n THEN PairAt(n, k, i, j + 1, c + 1)
                         ELSE PairAt(n, k, i + 1, i + 2, c + 1)
Pairs(n) == [k \in 1..((n * (n - 1)) \div 2) |-> PairAt(n, k, 1, 2, 1)]
PickSeeds(es) ==
    LET n == Len(es)
        ps == Pairs(n)
        f == [k \in DOMAIN ps |-> Area(Join(es[ps[k][1]].bb, es[ps[k][2]].bb))
                                  - Area(es[ps[k][1]].bb) - Area(es[ps[k][2]].bb)]
    IN ps[ArgMax(f, Len(ps), 1)]
PickNext(L, R, rem) ==
    LET lb == MBR(L)
        rb == MBR(R)
        f == [i \in 1..Len(rem) |-> Abs((Area(Join(lb, rem[i].bb)) - Area(lb))
                                        - (Area(Join(rb, rem[i].bb)) - Area(rb)))]
    IN ArgMax(f, Len(rem), 1)
AssignLeft(L, R, e) ==
    LET lb == MBR(L)
        rb == MBR(R)
        ld == Area(Join(lb, e.bb)) - Area(lb)
        rd == Area(Join(rb, e.bb)) - Area(rb)
    IN IF ld < rd THEN TRUE ELSE IF ld > rd THEN FALSE
       ELSE IF Area(lb) < Area(rb) THEN TRUE ELSE IF Area(lb) > Area(rb) THEN FALSE
       ELSE Len(L) <= Len(R)
RECURSIVE Distribute(_, _, _)
Distribute(L, R, rem) ==
    IF Len(rem) = 0 THEN <<L, R>>
    ELSE LET nx == PickNext(L, R, rem)
             e == rem[nx]
             toL == IF Len(rem) + Len(L) <= MinC THEN TRUE
                    ELSE IF Len(rem) + Len(R) <= MinC THEN FALSE
                    ELSE AssignLeft(L, R, e)
         IN IF toL THEN Distribute(Append(L, e), R, Remove(rem, nx))
            ELSE Distribute(L, Append(R, e), Remove(rem, nx))
Split(n) ==
    LET s == PickSeeds(n.es)
        rem == Remove(Remove(n.es, s[2]), s[1])
        d == Distribute(<<n.es[s[1]]>>, <<n.es[s[2]]>>, rem)
    IN <<[n EXCEPT !.es = d[1]], [n EXCEPT !.es = d[2]]>>

(* ------------------------------------------------------------------ insert *)
(* chooseNode: least enlargement, ties by smaller area, first wins; 0 = nil child followed (panic) *)
RECURSIVE ChooseFrom(_, _, _, _)
ChooseFrom(n, f, i, best) ==
    IF i > Len(n.es) THEN best
    ELSE IF best = 0 \/ f[i] < f[best] \/ (f[i] = f[best] /\ Area(n.es[i].bb) < Area(n.es[best].bb))
         THEN ChooseFrom(n, f, i + 1, i)
         ELSE ChooseFrom(n, f, i + 1, best)
ChooseIdx(n, e) ==
    LET f == [i \in 1..Len(n.es) |-> Area(Join(n.es[i].bb, e.bb)) - Area(n.es[i].bb)]
    IN ChooseFrom(n, f, 1, 0)

(* insert e at level lvl below n; returns <<n'>> or <<left, right>>; <<>> = the code would panic *)
RECURSIVE InsRec(_, _, _)
InsRec(n, e, lvl) ==
    IF n.leaf \/ n.level = lvl
    THEN LET n2 == [n EXCEPT !.es = Append(n.es, e)]
         IN IF Len(n2.es) > MaxC THEN Split(n2) ELSE <<n2>>
    ELSE LET i == ChooseIdx(n, e) IN
         IF i = 0 \/ n.es[i].ch = Nil THEN <<>>
         ELSE LET r == InsRec(n.es[i].ch, e, lvl) IN
              IF Len(r) = 0 THEN <<>>
              ELSE LET es1 == [n.es EXCEPT ![i] = Ent(MBR(r[1].es), r[1], 0)]
                       es2 == IF Len(r) = 2 THEN Append(es1, Ent(MBR(r[2].es), r[2], 0)) ELSE es1
                       n2 == [n EXCEPT !.es = es2]
                   IN IF Len(n2.es) > MaxC THEN Split(n2) ELSE <<n2>>

(* tree.insert: a root split makes a new root at level height+1 *)
TreeIns(rt, h, e, lvl) ==
    LET r == InsRec(rt, e, lvl) IN
    IF Len(r) = 0 THEN [root |-> rt, height |-> h, ok |-> FALSE]
    ELSE IF Len(r) = 1 THEN [root |-> r[1], height |-> h, ok |-> TRUE]
    ELSE [root |-> [leaf |-> FALSE, level |-> h + 1,
                    es |-> <<Ent(MBR(r[1].es), r[1], 0), Ent(MBR(r[2].es), r[2], 0)>>],
          height |-> h + 1, ok |-> TRUE]

(* ------------------------------------------------------------------ delete *)
HasObj(n, o) == \E i \in 1..Len(n.es) : n.es[i].obj = o
RECURSIVE At(_, _)
At(m, q) == IF Len(q) = 0 THEN m ELSE At(m.es[q[1]].ch, Tail(q))
(* findLeaf: path (entry indices) to the first leaf holding o among subtrees whose box contains B[o]; <<0>> = none *)
RECURSIVE FindPath(_, _, _)
RECURSIVE TryFrom(_, _, _, _)
TryFrom(n, o, B, i) ==
    IF i > Len(n.es) THEN <<0>>
    ELSE IF n.es[i].ch # Nil /\ Contains(n.es[i].bb, B[o])
         THEN LET p == FindPath(n.es[i].ch, o, B) IN
              IF p # <<0>> /\ HasObj(At(n.es[i].ch, p), o) THEN <<i>> \o p ELSE TryFrom(n, o, B, i + 1)
         ELSE TryFrom(n, o, B, i + 1)
FindPath(n, o, B) == IF n.leaf THEN <<>> ELSE TryFrom(n, o, B, 1)
LastIdx(n, o) == CHOOSE i \in 1..Len(n.es) : n.es[i].obj = o /\ \A j \in (i + 1)..Len(n.es) : n.es[j].obj # o
(* remove o from the leaf at path, condense upwards; returns <<node', orphans (leaf-most first)>> *)
RECURSIVE DelRec(_, _, _)
DelRec(n, path, o) ==
    IF Len(path) = 0 THEN <<[n EXCEPT !.es = Remove(n.es, LastIdx(n, o))], <<>>>>
    ELSE LET i == path[1]
             r == DelRec(n.es[i].ch, Tail(path), o)
             c == r[1]
         IN IF Len(c.es) < MinC
            THEN <<[n EXCEPT !.es = Remove(n.es, i)], IF Len(c.es) > 0 THEN Append(r[2], c) ELSE r[2]>>
            ELSE <<[n EXCEPT !.es = [n.es EXCEPT ![i] = Ent(MBR(c.es), c, 0)]], r[2]>>
RECURSIVE Reinsert(_, _, _)
Reinsert(rt, h, orph) ==
    IF Len(orph) = 0 THEN [root |-> rt, height |-> h, ok |-> TRUE]
    ELSE LET t == TreeIns(rt, h, Ent(MBR(orph[1].es), orph[1], 0), orph[1].level + 1) IN
         IF ~t.ok THEN t ELSE Reinsert(t.root, t.height, Tail(orph))

(* when every branch of the root was removed on the way up, nothing is left to hang the orphans under: the tree starts over
   with an empty leaf root and the objects of the orphans are inserted again one by one (orphans in order, each depth first) *)
RECURSIVE ObjEntries(_)
RECURSIVE ObjEntriesFrom(_, _)
ObjEntriesFrom(n, i) == IF i > Len(n.es) THEN <<>>
                        ELSE (IF n.leaf THEN <<Ent(n.es[i].bb, Nil, n.es[i].obj)>>
                              ELSE IF n.es[i].ch = Nil THEN <<>> ELSE ObjEntries(n.es[i].ch)) \o ObjEntriesFrom(n, i + 1)
ObjEntries(n) == ObjEntriesFrom(n, 1)
RECURSIVE AllObjEntries(_, _)
AllObjEntries(orph, i) == IF i > Len(orph) THEN <<>> ELSE ObjEntries(orph[i]) \o AllObjEntries(orph, i + 1)
RECURSIVE ReinsertObjs(_, _, _)
ReinsertObjs(rt, h, es) ==
    IF Len(es) = 0 THEN [root |-> rt, height |-> h, ok |-> TRUE]
    ELSE LET t == TreeIns(rt, h, es[1], 1) IN
         IF ~t.ok THEN t ELSE ReinsertObjs(t.root, t.height, Tail(es))

(* the two public mutators as functions on (root, height); found = Delete's return value *)
DoInsert(rt, h, o, B) == TreeIns(rt, h, Ent(B[o], Nil, o), 1)
DoDelete(rt, h, o, B) ==
    LET p == FindPath(rt, o, B)
        found == p # <<0>> /\ HasObj(At(rt, p), o)
    IN IF ~found THEN [root |-> rt, height |-> h, ok |-> TRUE, found |-> FALSE]
       ELSE LET r == DelRec(rt, p, o)
                t == IF ~r[1].leaf /\ Len(r[1].es) = 0 /\ Len(r[2]) > 0
                     THEN ReinsertObjs(Leaf(<<>>), 1, AllObjEntries(r[2], 1))
                     ELSE Reinsert(r[1], h, r[2])
                collapse == t.ok /\ ~t.root.leaf /\ Len(t.root.es) = 1
                drained == t.ok /\ ~t.root.leaf /\ Len(t.root.es) = 0
            IN [root |-> IF collapse THEN t.root.es[1].ch ELSE IF drained THEN Leaf(<<>>) ELSE t.root,
                height |-> IF collapse THEN t.height - 1 ELSE IF drained THEN 1 ELSE t.height,
                ok |-> t.ok, found |-> TRUE]

(* ------------------------------------------------------------------ search (R2) *)
RECURSIVE Search(_, _)
RECURSIVE SearchFrom(_, _, _)
SearchFrom(n, q, i) ==
    IF i > Len(n.es) THEN <<>>
    ELSE (IF Overlap(n.es[i].bb, q)
          THEN (IF n.leaf THEN <<n.es[i].obj>> ELSE Search(n.es[i].ch, q))
          ELSE <<>>) \o SearchFrom(n, q, i + 1)
Search(n, q) == SearchFrom(n, q, 1)

(* ------------------------------------------------------------------ nearest neighbour (R2) *)
Big == 1000000000
Sq(x) == x * x
MinDist(p, r) == (IF p[1] < r[1] THEN Sq(p[1] - r[1]) ELSE IF p[1] > r[3] THEN Sq(p[1] - r[3]) ELSE 0)
               + (IF p[2] < r[2] THEN Sq(p[2] - r[2]) ELSE IF p[2] > r[4] THEN Sq(p[2] - r[4]) ELSE 0)
MinMaxDist(p, r) ==
    LET rmX == IF 2 * p[1] <= r[1] + r[3] THEN r[1] ELSE r[3]
        rmY == IF 2 * p[2] <= r[2] + r[4] THEN r[2] ELSE r[4]
        rMX == IF 2 * p[1] >= r[1] + r[3] THEN r[1] ELSE r[3]
        rMY == IF 2 * p[2] >= r[2] + r[4] THEN r[2] ELSE r[4]
        S == Sq(p[1] - rMX) + Sq(p[2] - rMY)
    IN Min2(S - Sq(p[1] - rMX) + Sq(p[1] - rmX), S - Sq(p[2] - rMY) + Sq(p[2] - rmY))
(* stable insertion sort of entry indices by MINDIST (sort.Sort is not stable: tie order is a modelling choice) *)
RECURSIVE InsSorted(_, _, _)
InsSorted(s, x, key) == IF Len(s) = 0 THEN <<x>>
                        ELSE IF key[x] < key[s[1]] THEN <<x>> \o s
                        ELSE <<s[1]>> \o InsSorted(Tail(s), x, key)
RECURSIVE SortIdx(_, _, _)
SortIdx(n, i, key) == IF i = 0 THEN <<>> ELSE InsSorted(SortIdx(n, i - 1, key), i, key)
RECURSIVE MinOver(_, _)
MinOver(f, n) == IF n = 0 THEN Big ELSE Min2(f[n], MinOver(f, n - 1))
Branches(n, p, prune) ==
    LET md == [i \in 1..Len(n.es) |-> MinDist(p, n.es[i].bb)]
        mm == MinOver([i \in 1..Len(n.es) |-> MinMaxDist(p, n.es[i].bb)], Len(n.es))
    IN SelectSeq(SortIdx(n, Len(n.es), md), LAMBDA i : ~prune \/ md[i] <= mm)
(* nearestNeighbor: acc = <<nearest obj (0 = nil), d>> *)
RECURSIVE NN(_, _, _)
RECURSIVE NNLeaf(_, _, _, _)
RECURSIVE NNBr(_, _, _, _)
NNLeaf(n, p, i, acc) == IF i > Len(n.es) THEN acc
                        ELSE LET d == MinDist(p, n.es[i].bb) IN
                             NNLeaf(n, p, i + 1, IF d < acc[2] THEN <<n.es[i].obj, d>> ELSE acc)
NNBr(n, p, br, acc) == IF Len(br) = 0 THEN acc
                       ELSE LET r == NN(n.es[br[1]].ch, p, acc) IN
                            NNBr(n, p, Tail(br), IF r[2] < acc[2] THEN r ELSE acc)
NN(n, p, acc) == IF n.leaf THEN NNLeaf(n, p, 1, acc) ELSE NNBr(n, p, Branches(n, p, TRUE), acc)
NearestNeighbor(rt, p) == NN(rt, p, <<0, Big>>)[1]

(* nearestNeighbors: acc = [d |-> seq of k dists, o |-> seq of k objs]; no MINMAXDIST pruning (the fix) *)
InsertNearest(k, acc, dist, obj) ==
    LET RECURSIVE Pos(_)
        Pos(i) == IF i <= k /\ dist >= acc.d[i] THEN Pos(i + 1) ELSE i
        i == Pos(1)
    IN IF i > k THEN acc
       ELSE [d |-> SubSeq(acc.d, 1, i - 1) \o <<dist>> \o SubSeq(acc.d, i, k - 1),
             o |-> SubSeq(acc.o, 1, i - 1) \o <<obj>> \o SubSeq(acc.o, i, k - 1)]
RECURSIVE KNN(_, _, _, _)
RECURSIVE KNNLeaf(_, _, _, _, _)
RECURSIVE KNNBr(_, _, _, _, _)
KNNLeaf(n, p, k, i, acc) == IF i > Len(n.es) THEN acc
                            ELSE KNNLeaf(n, p, k, i + 1, InsertNearest(k, acc, MinDist(p, n.es[i].bb), n.es[i].obj))
KNNBr(n, p, k, br, acc) == IF Len(br) = 0 THEN acc ELSE KNNBr(n, p, k, Tail(br), KNN(n.es[br[1]].ch, p, k, acc))
KNN(n, p, k, acc) == IF n.leaf THEN KNNLeaf(n, p, k, 1, acc) ELSE KNNBr(n, p, k, Branches(n, p, FALSE), acc)
NearestNeighbors(rt, k, p) == KNN(rt, p, k, [d |-> [i \in 1..k |-> Big], o |-> [i \in 1..k |-> 0]]).o

(* ------------------------------------------------------------------ R1 *)
RECURSIVE SumBag(_, _)
SumBag(bag, n) == IF n = 0 THEN 0 ELSE bag[n] + SumBag(bag, n - 1)
Count(s, o) == Cardinality({i \in 1..Len(s) : s[i] = o})

(* structural typing of a snapshot, so that the invariants below cannot be ill-defined on it *)
RECURSIVE WellFormed(_, _)
WellFormed(n, NO) ==
    /\ DOMAIN n = {"leaf", "level", "es"}
    /\ \A i \in 1..Len(n.es) :
         LET e == n.es[i] IN
         /\ Len(e.bb) = 4
         /\ IF n.leaf THEN e.ch = Nil /\ e.obj \in 1..NO
            ELSE e.ch # Nil /\ e.obj = 0 /\ WellFormed(e.ch, NO)
RECURSIVE Depths(_)
Depths(n) == IF n.leaf THEN {1} ELSE {d + 1 : d \in UNION {Depths(n.es[i].ch) : i \in 1..Len(n.es)}}
RECURSIVE LeafObjs(_)
RECURSIVE LeafObjsFrom(_, _)
LeafObjsFrom(n, i) == IF i > Len(n.es) THEN <<>> ELSE LeafObjs(n.es[i].ch) \o LeafObjsFrom(n, i + 1)
LeafObjs(n) == IF n.leaf THEN [i \in 1..Len(n.es) |-> n.es[i].obj] ELSE LeafObjsFrom(n, 1)
RECURSIVE EnvOK(_, _)
EnvOK(n, B) == IF n.leaf THEN \A i \in 1..Len(n.es) : n.es[i].bb = B[n.es[i].obj]
               ELSE \A i \in 1..Len(n.es) : /\ Len(n.es[i].ch.es) > 0
                                            /\ n.es[i].bb = MBR(n.es[i].ch.es)
                                            /\ EnvOK(n.es[i].ch, B)
RECURSIVE FanOK(_)
FanOK(n) == Len(n.es) <= MaxC /\ (n.leaf \/ \A i \in 1..Len(n.es) : FanOK(n.es[i].ch))
RECURSIVE LevelsOK(_)
LevelsOK(n) == IF n.leaf THEN n.level = 1
               ELSE \A i \in 1..Len(n.es) : n.es[i].ch.level = n.level - 1 /\ LevelsOK(n.es[i].ch)

(* all of the structural half of C11 for a tree rt with Depth() = h holding bag *)
StructOK(rt, h, bag, B) ==
    LET NO == Len(B) IN
    /\ WellFormed(rt, NO)
    /\ \A o \in 1..NO : Count(LeafObjs(rt), o) = bag[o]                  \* LeafBag
    /\ Depths(rt) \subseteq {h}                                         \* Balanced, Depth() = leaf depth (vacuous without leaves)
    /\ EnvOK(rt, B)                                                     \* exact envelopes
    /\ FanOK(rt)                                                        \* fan-out

(* SearchIntersect(q) as a multiset of object ids = scan of the bag *)
SearchSpecOK(res, q, bag, B) ==
    \A o \in 1..Len(B) : Count(res, o) = (IF Overlap(B[o], q) THEN bag[o] ELSE 0)
NoStray(res, NO) == \A i \in 1..Len(res) : res[i] \in 1..NO

MinDistAll(p, bag, B) == MinOver([o \in 1..Len(B) |-> IF bag[o] > 0 THEN MinDist(p, B[o]) ELSE Big], Len(B))
NNOK(r, p, bag, B) == r \in 1..Len(B) /\ bag[r] > 0 /\ MinDist(p, B[r]) = MinDistAll(p, bag, B)

(* the sorted sequence of the m smallest distances of stored objects (with multiplicity) *)
RECURSIVE SmallestDists(_, _, _, _)
SmallestDists(p, bag, B, m) ==
    IF m = 0 THEN <<>>
    ELSE LET cand == {o \in 1..Len(B) : bag[o] > 0}
             o == CHOOSE x \in cand : \A y \in cand : MinDist(p, B[x]) <= MinDist(p, B[y])
         IN <<MinDist(p, B[o])>> \o SmallestDists(p, [bag EXCEPT ![o] = @ - 1], B, m - 1)
KNNOK(rs, k, p, bag, B) ==
    LET sz == SumBag(bag, Len(B))
        m == Min2(k, sz)
    IN /\ Len(rs) = k
       /\ \A i \in 1..m : rs[i] \in 1..Len(B)
       /\ \A i \in (m + 1)..k : rs[i] = 0
       /\ \A o \in 1..Len(B) : Count(SubSeq(rs, 1, m), o) <= bag[o]
       /\ [i \in 1..m |-> MinDist(p, B[rs[i]])] = SmallestDists(p, bag, B, m)
=============================================================================

------------------------------ MODULE RTreeGen ------------------------------
(* Behaviour generator for C11/C12.  The design spec is extended with a     *)
(* history variable h (the operations performed so far) and `last`.  With   *)
(* VIEW GenView (h hidden) breadth-first search visits every distinct       *)
(* (state, incoming operation) pair once, and prints the history that       *)
(* reached it: a cover of all (operation, resulting state) combinations of  *)
(* the bounded model.  In -simulate mode the same module prints random      *)
(* walks of the requested depth.                                            *)
EXTENDS RTreeMC, Json

CONSTANT EmitLen          \* simulate mode: print only histories of exactly this length (0 = print every history)
VARIABLES h, last
gvars == <<vars, h, last>>

GenInit == Init /\ h = <<>> /\ last = <<"init", 0>>
GenNext == \E o \in Objs :
             \/ Insert(o) /\ h' = Append(h, [op |-> "ins", o |-> o]) /\ last' = <<"ins", o>>
             \/ Delete(o) /\ h' = Append(h, [op |-> "del", o |-> o]) /\ last' = <<"del", o>>
GenSpec == GenInit /\ [][GenNext]_gvars
GenView == <<vars, last>>

Emit == (Len(h) > 0 /\ (EmitLen = 0 \/ Len(h) = EmitLen)) =>
            PrintT(ToJson([minc |-> MinC, maxc |-> MaxC, boxes |-> Boxes, ops |-> h]))
=============================================================================

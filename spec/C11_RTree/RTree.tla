-------------------------------- MODULE RTree --------------------------------
(* C11 / C12 design specification: the R2 replica of index/rtree (operators  *)
(* in RTreeOps) as a transition system over a bounded object pool, checked   *)
(* against the R1 invariants.                                                *)
EXTENDS RTreeOps

(* ------------------------------------------------------------------ design spec (R2 |= R1) *)
CONSTANTS Boxes,        \* pool: object id -> <<x1, y1, x2, y2>>
          Mult,         \* pool: object id -> how many times it may be stored at once
          Queries, NNPts, Ks, MaxOps
VARIABLES root, height, size, bag, nops, bad
vars == <<root, height, size, bag, nops, bad>>
Objs == DOMAIN Boxes

Init == /\ root = Leaf(<<>>) /\ height = 1 /\ size = 0
        /\ bag = [o \in Objs |-> 0] /\ nops = 0 /\ bad = FALSE

Tick == nops' = IF MaxOps = 0 THEN 0 ELSE nops + 1
CanStep == ~bad /\ (MaxOps = 0 \/ nops < MaxOps)

Insert(o) == /\ CanStep /\ bag[o] < Mult[o]
             /\ LET t == DoInsert(root, height, o, Boxes) IN
                root' = t.root /\ height' = t.height /\ bad' = ~t.ok
             /\ size' = size + 1 /\ bag' = [bag EXCEPT ![o] = @ + 1] /\ Tick

Delete(o) == /\ CanStep /\ Tick
             /\ LET t == DoDelete(root, height, o, Boxes) IN
                /\ root' = t.root /\ height' = t.height /\ bad' = ~t.ok
                /\ size' = IF t.found THEN size - 1 ELSE size
                /\ bag' = IF t.found THEN [bag EXCEPT ![o] = @ - 1] ELSE bag

Next == \E o \in Objs : Insert(o) \/ Delete(o)
Spec == Init /\ [][Next]_vars

NoPanic == ~bad
SizeOK == size = SumBag(bag, Len(Boxes))
TreeOK == bad \/ StructOK(root, height, bag, Boxes)
LevelOK == bad \/ LevelsOK(root)
SearchOK == bad \/ \A q \in Queries : SearchSpecOK(Search(root, q), q, bag, Boxes)
(* Delete succeeds exactly on stored objects; a failed Delete changes nothing *)
DeleteOK == [][\A o \in Objs : Delete(o) =>
                 IF bag[o] > 0 THEN bag' = [bag EXCEPT ![o] = @ - 1]
                 ELSE UNCHANGED <<root, height, size, bag>>]_vars
NearestOK == bad \/ size = 0 \/ \A p \in NNPts : NNOK(NearestNeighbor(root, p), p, bag, Boxes)
KNearestOK == bad \/ \A p \in NNPts, k \in Ks : KNNOK(NearestNeighbors(root, k, p), k, p, bag, Boxes)
(* ------------------------------------------------------------------ reachability witnesses (vacuity self-tests) *)
(* Each of these is expected to be VIOLATED by TLC: the bounded model does reach three levels, does collapse its root,
   does drain completely and refill.  (`-coverage` cannot be used on this module: it exhausts the heap before the first
   state.)  *)
FillSpec == Init /\ [][\E o \in Objs : Insert(o)]_vars          \* insert-only walks, used with -simulate on the large pool
NeverThreeLevels == height < 3
NeverCollapses == [][height' >= height]_vars
NeverRefilled == [][~(size = 0 /\ nops > 0 /\ size' = 1)]_vars
=============================================================================

--------------------------------- MODULE TextGen ---------------------------------
EXTENDS TextCodecs, Json
CONSTANTS MaxM, Empties
VARIABLE c
Cases == {[kind |-> "text", g |-> x] : x \in Supported(MaxM) \cup WithDuplicates \cup ClosedLines \cup Extremes \cup (IF Empties THEN WithEmpties(MaxM) ELSE {})}
         \cup {[kind |-> "text", g |-> G("GeometryCollection", << G("Point", PtK(1)) >>)], [kind |-> "text", g |-> G("Bounds", <<PtK(1), PtK(2)>>)],
               [kind |-> "text", g |-> G("MultiPoint", PathK(2, 2))],
               [kind |-> "nonfinite", g |-> G("Point", <<1, 99>>)], [kind |-> "nonfinite", g |-> G("LineString", <<PtK(1), <<98, 2>>>>)],
               [kind |-> "nonfinite", g |-> G("MultiPolygon", << << <<PtK(1), <<2, 97>>>> >> >>)]}
GenInit == c \in Cases /\ PrintT(ToJson(c))
GenSpec == GenInit /\ [][UNCHANGED c]_c
=============================================================================

-------------------------------- MODULE TextTrace --------------------------------
(* Trace spec for C06 (Focus = "C06": GeoJSON) and C17 (Focus = "C17": WKT).  Each recording encodes one geometry with
   the real encoder; the event carries the token stream of the produced text (or the error) and, for GeoJSON, the tree
   obtained from the real Decode(Encode(g)). *)
EXTENDS TextCodecs, TraceIO
CONSTANT Focus
VARIABLE cs
GJSupported == {"Point", "MultiPoint", "LineString", "MultiLineString", "Polygon", "MultiPolygon"}
WKTSupported == {"Point", "LineString", "MultiLineString", "Polygon", "MultiPolygon"}
C06Ok(e) ==
    IF cs.kind = "nonfinite" \/ cs.g.t \notin GJSupported
    THEN e.gjout = "err"                                        \* unsupported types and non-finite coordinates are errors
    ELSE /\ e.gjout = "ok"
         /\ LET r == ParseGeoJSON(e.gjtokens) IN r.ok /\ r.v = cs.g     \* an RFC 7946 geometry object that parses back to g
         /\ e.gjdec = cs.g                                      \* Decode(Encode(g)) = g, bit for bit
         /\ e.gjkeep                                            \* the text returned for the previous geometry is still that text
C17Ok(e) ==
    IF cs.kind = "nonfinite" THEN TRUE                          \* WKT of non-finite values is outside the property
    ELSE IF cs.g.t \notin WKTSupported THEN e.wktout = "err"    \* other types are rejected, not mis-encoded
    ELSE /\ e.wktout = "ok"
         /\ LET r == ParseWKT(e.wkttokens) IN r.ok /\ r.v = cs.g
         /\ e.wktkeep /\ e.wktshort      \* (every number in the shortest decimal form that reads back as the same float64)
Ok(e) == e.ev = "text" /\ (IF Focus = "C06" THEN C06Ok(e) ELSE C17Ok(e))
Apply(e) == UNCHANGED cs
Reset(e) == cs' = e
Keep == UNCHANGED cs
TraceInit == TInit /\ cs = [kind |-> "none"]
TraceNext == TStep(Ok, Apply, Reset, Keep)
TraceSpec == TraceInit /\ [][TraceNext]_<<l, fails, cs>>
=============================================================================

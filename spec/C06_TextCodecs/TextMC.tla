---------------------------------- MODULE TextMC ----------------------------------
(* Self-consistency of the two recognisers: rendering any supported geometry to tokens (type member first or last for
   JSON) and parsing it gives the geometry back; a token sequence with one token removed is never accepted as the same
   geometry. *)
EXTENDS TextCodecs
CONSTANTS MaxM, Empties
VARIABLE g
Num(id) == [k |-> "num", s |-> "", id |-> id]
Str(s) == [k |-> "str", s |-> s, id |-> 0]
Kw(s) == [k |-> "kw", s |-> s, id |-> 0]
RECURSIVE Join(_, _, _)
Join(items, sep, i) == IF i > Len(items) THEN <<>> ELSE (IF i > 1 THEN <<sep>> ELSE <<>>) \o items[i] \o Join(items, sep, i + 1)
RECURSIVE JTok(_, _)
JTok(v, d) == IF d = 1 THEN <<Tk("["), Num(v[1]), Tk(","), Num(v[2]), Tk("]")>>
              ELSE <<Tk("[")>> \o Join([i \in DOMAIN v |-> JTok(v[i], d - 1)], Tk(","), 1) \o <<Tk("]")>>
RenderJ(x, typeFirst) ==
    IF typeFirst THEN <<Tk("{"), Str("type"), Tk(":"), Str(x.t), Tk(","), Str("coordinates"), Tk(":")>> \o JTok(x.m, JDepth(x.t)) \o <<Tk("}")>>
    ELSE <<Tk("{"), Str("coordinates"), Tk(":")>> \o JTok(x.m, JDepth(x.t)) \o <<Tk(","), Str("type"), Tk(":"), Str(x.t), Tk("}")>>
RECURSIVE WTok(_, _)
WTok(v, d) == IF d = 0 THEN <<Num(v[1]), Num(v[2])>>
              ELSE <<Tk("(")>> \o Join([i \in DOMAIN v |-> WTok(v[i], d - 1)], Tk(","), 1) \o <<Tk(")")>>
WKw(t) == CASE t = "Point" -> "POINT" [] t = "LineString" -> "LINESTRING" [] t = "Polygon" -> "POLYGON"
            [] t = "MultiLineString" -> "MULTILINESTRING" [] t = "MultiPolygon" -> "MULTIPOLYGON"
RenderW(x) == <<Kw(WKw(x.t))>> \o WTok(IF x.t = "Point" THEN <<x.m>> ELSE x.m, WDepth(x.t))
Init == g \in Supported(MaxM) \cup WithDuplicates \cup ClosedLines \cup Extremes \cup (IF Empties THEN WithEmpties(MaxM) ELSE {})
Spec == Init /\ [][UNCHANGED g]_g
RemoveTok(ts, i) == SubSeq(ts, 1, i - 1) \o SubSeq(ts, i + 1, Len(ts))
JsonOK == /\ ParseGeoJSON(RenderJ(g, TRUE)).ok /\ ParseGeoJSON(RenderJ(g, TRUE)).v = g
          /\ ParseGeoJSON(RenderJ(g, FALSE)).ok /\ ParseGeoJSON(RenderJ(g, FALSE)).v = g
          /\ \A i \in 1..Len(RenderJ(g, TRUE)) : LET r == ParseGeoJSON(RemoveTok(RenderJ(g, TRUE), i)) IN ~r.ok \/ r.v # g
WktOK == g.t = "MultiPoint" \/ g \in WithEmpties(MaxM) \/
         (/\ ParseWKT(RenderW(g)).ok /\ ParseWKT(RenderW(g)).v = g
          /\ \A i \in 1..Len(RenderW(g)) : LET r == ParseWKT(RemoveTok(RenderW(g), i)) IN ~r.ok \/ r.v # g)
=============================================================================

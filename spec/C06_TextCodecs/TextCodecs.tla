------------------------------ MODULE TextCodecs ------------------------------
(* C06 / C17 - the text encoders produce well-formed text that parses back.     *)
(* The harness lexes the real encoder's output with a small hand-written lexer  *)
(* (no encoding/json, no strconv) into tokens; a number token carries the id of  *)
(* the float64 bit pattern obtained by exact decimal -> binary rounding.         *)
(*   JSON tokens: [k |-> "{"] "}" "[" "]" ":" "," , [k |-> "str", s], [k |-> "num", id]   *)
(*   WKT tokens:  [k |-> "kw", s], "(" ")" "," , [k |-> "num", id]                *)
(* R1: the grammars as recursive-descent recognisers over token sequences that   *)
(*     return the parsed geometry:                                               *)
(*   GeoJSON (RFC 7946): an object with members "type" and "coordinates" in any  *)
(*     order, coordinates nested exactly as the type requires, positions [x, y]. *)
(*   WKT (OGC): KEYWORD ( ... ) with the parenthesis nesting of the type,        *)
(*     positions "x y", members separated by commas.                             *)
(*   "parses back to the same geometry" is Parse(tokens) = g.                    *)
EXTENDS Integers, Sequences, FiniteSets, TLC

G(t, m) == [t |-> t, m |-> m]
Tk(k) == [k |-> k, s |-> "", id |-> 0]
Fail == [ok |-> FALSE, v |-> <<>>, pos |-> 0]
OkR(v, pos) == [ok |-> TRUE, v |-> v, pos |-> pos]
Is(ts, pos, k) == pos <= Len(ts) /\ ts[pos].k = k

(* ------------------------------------------------------------------ generic: a comma-separated list of items between open/close tokens *)
(* item kinds: "num2json" [x, y]; "num2wkt" x y; and nested lists, named by depth *)
RECURSIVE JList(_, _, _)
RECURSIVE JItems(_, _, _, _)
(* JSON array of depth d starting at pos: depth 1 = position [x, y]; depth d = array of depth d-1 arrays (possibly empty) *)
JList(ts, pos, d) ==
    IF ~Is(ts, pos, "[") THEN Fail
    ELSE IF d = 1
         THEN IF Is(ts, pos + 1, "num") /\ Is(ts, pos + 2, ",") /\ Is(ts, pos + 3, "num") /\ Is(ts, pos + 4, "]")
              THEN OkR(<<ts[pos + 1].id, ts[pos + 3].id>>, pos + 5) ELSE Fail
         ELSE IF Is(ts, pos + 1, "]") THEN OkR(<<>>, pos + 2)
              ELSE JItems(ts, pos + 1, d - 1, <<>>)
JItems(ts, pos, d, acc) ==
    LET r == JList(ts, pos, d) IN
    IF ~r.ok THEN Fail
    ELSE IF Is(ts, r.pos, ",") THEN JItems(ts, r.pos + 1, d, Append(acc, r.v))
    ELSE IF Is(ts, r.pos, "]") THEN OkR(Append(acc, r.v), r.pos + 1)
    ELSE Fail

JDepth(t) == CASE t = "Point" -> 1 [] t \in {"MultiPoint", "LineString"} -> 2
               [] t \in {"MultiLineString", "Polygon"} -> 3 [] t = "MultiPolygon" -> 4 [] OTHER -> 0
(* { "type": "T", "coordinates": ... } or with the members swapped; nothing else *)
ParseGeoJSON(ts) ==
    IF ~(Is(ts, 1, "{") /\ Is(ts, 2, "str") /\ Is(ts, 3, ":")) THEN Fail
    ELSE IF ts[2].s = "type"
         THEN IF Is(ts, 4, "str") /\ JDepth(ts[4].s) > 0 /\ Is(ts, 5, ",") /\ Is(ts, 6, "str") /\ ts[6].s = "coordinates" /\ Is(ts, 7, ":")
              THEN LET r == JList(ts, 8, JDepth(ts[4].s)) IN
                   IF r.ok /\ Is(ts, r.pos, "}") /\ r.pos = Len(ts) THEN OkR(G(ts[4].s, r.v), r.pos + 1) ELSE Fail
              ELSE Fail
         ELSE IF ts[2].s = "coordinates"
              THEN (* the type comes last: find it first *)
                   IF Len(ts) >= 5 /\ ts[Len(ts)].k = "}" /\ ts[Len(ts) - 1].k = "str" /\ JDepth(ts[Len(ts) - 1].s) > 0
                      /\ ts[Len(ts) - 2].k = ":" /\ ts[Len(ts) - 3].k = "str" /\ ts[Len(ts) - 3].s = "type" /\ ts[Len(ts) - 4].k = ","
                   THEN LET r == JList(ts, 4, JDepth(ts[Len(ts) - 1].s)) IN
                        IF r.ok /\ r.pos = Len(ts) - 4 THEN OkR(G(ts[Len(ts) - 1].s, r.v), Len(ts) + 1) ELSE Fail
                   ELSE Fail
              ELSE Fail

(* ------------------------------------------------------------------ WKT *)
RECURSIVE WList(_, _, _)
RECURSIVE WItems(_, _, _, _)
(* depth 0: "x y"; depth d: ( item , item ... ) of depth d-1 items *)
WList(ts, pos, d) ==
    IF d = 0 THEN IF Is(ts, pos, "num") /\ Is(ts, pos + 1, "num") THEN OkR(<<ts[pos].id, ts[pos + 1].id>>, pos + 2) ELSE Fail
    ELSE IF ~Is(ts, pos, "(") THEN Fail
    ELSE WItems(ts, pos + 1, d - 1, <<>>)
WItems(ts, pos, d, acc) ==
    LET r == WList(ts, pos, d) IN
    IF ~r.ok THEN Fail
    ELSE IF Is(ts, r.pos, ",") THEN WItems(ts, r.pos + 1, d, Append(acc, r.v))
    ELSE IF Is(ts, r.pos, ")") THEN OkR(Append(acc, r.v), r.pos + 1)
    ELSE Fail
WType(kw) == CASE kw = "POINT" -> "Point" [] kw = "LINESTRING" -> "LineString" [] kw = "POLYGON" -> "Polygon"
               [] kw = "MULTILINESTRING" -> "MultiLineString" [] kw = "MULTIPOLYGON" -> "MultiPolygon"
               [] kw = "MULTIPOINT" -> "MultiPoint" [] OTHER -> "none"
WDepth(t) == CASE t = "Point" -> 1 [] t = "LineString" -> 1 [] t = "Polygon" -> 2 [] t = "MultiLineString" -> 2
               [] t = "MultiPolygon" -> 3 [] OTHER -> 0
ParseWKT(ts) ==
    IF ~Is(ts, 1, "kw") \/ WDepth(WType(ts[1].s)) = 0 THEN Fail
    ELSE LET t == WType(ts[1].s)
             r == WList(ts, 2, WDepth(t))
         IN IF ~r.ok \/ r.pos # Len(ts) + 1 THEN Fail
            ELSE IF t = "Point" THEN (IF Len(r.v) = 1 THEN OkR(G(t, r.v[1]), r.pos) ELSE Fail)
            ELSE OkR(G(t, r.v), r.pos)

(* ------------------------------------------------------------------ universe *)
NIds == 10                   \* ids of the adversarial finite float64 pool held by the harness
PtK(k) == <<(k % NIds) + 1, ((3 * k + 2) % NIds) + 1>>
PathK(base, n) == [q \in 1..n |-> PtK(base + q)]
RECURSIVE SumTo(_, _)
SumTo(v, n) == IF n = 0 THEN 0 ELSE SumTo(v, n - 1) + v[n]
PathsK(base, v) == [r \in DOMAIN v |-> PathK(base + SumTo(v, r - 1), v[r])]
VecsFrom(lo, hi, S) == UNION {[1..n -> S] : n \in lo..hi}
Supported(maxm) ==
    {G("Point", PtK(1)), G("Point", PtK(4))}
    \cup {G(t, PathK(b, n)) : t \in {"MultiPoint", "LineString"}, b \in {0, 3}, n \in 1..3}
    \cup {G(t, PathsK(1, v)) : t \in {"MultiLineString", "Polygon"}, v \in VecsFrom(1, maxm, {1, 2, 3})}
    \cup {G("MultiPolygon", [p \in DOMAIN vv |-> PathsK(3 * p, vv[p])]) : vv \in VecsFrom(1, maxm, VecsFrom(1, 2, {1, 3}))}
(* repeated vertices: consecutive equal positions inside a member (a doubled corner, a two-point line of length zero) are
   part of the geometry and must survive; both codecs *)
DupPath(b, n, at) == LET p == PathK(b, n) IN SubSeq(p, 1, at) \o <<p[at]>> \o SubSeq(p, at + 1, n)
(* a point at every pair of pool values (the origin, signed zeros and the extreme values among them) *)
AllPoints == {G("Point", <<a, b>>) : a \in 1..NIds, b \in 1..NIds}
WithDuplicates ==
    AllPoints \cup
    {G("LineString", DupPath(b, n, 1)) : b \in {0, 3}, n \in 1..3}
    \cup {G("LineString", DupPath(0, 3, at)) : at \in 1..3}
    \cup {G(t, <<DupPath(1, 3, at), PathK(5, 2)>>) : t \in {"MultiLineString", "Polygon"}, at \in 1..3}
    \cup {G(t, <<PathK(1, 2), DupPath(4, 2, at)>>) : t \in {"MultiLineString", "Polygon"}, at \in 1..2}
    \cup {G("MultiPolygon", << <<DupPath(2, 3, at)>>, <<PathK(6, 3), DupPath(1, 1, 1)>> >>) : at \in 1..3}
(* closed lines: a line string (or a member) whose last vertex is its first one is still a line string, of any length *)
ClosedPath(b, n) == PathK(b, n) \o <<PathK(b, n)[1]>>
ClosedLines ==
    {G("LineString", ClosedPath(b, n)) : b \in {0, 3}, n \in 1..5}
    \cup {G("MultiLineString", <<ClosedPath(1, n), PathK(6, 2)>>) : n \in 2..4}
    \cup {G("MultiLineString", <<ClosedPath(2, 3)>>), G("MultiPoint", ClosedPath(0, 3))}
(* the largest finite magnitudes of both signs in one geometry (ids 9 and 11: +/- the largest finite float64; the extent of
   such a geometry is not a finite number although every coordinate is), on either axis, within a member and across members *)
Extremes ==
    {G(t, << <<9, 1>>, <<11, 3>> >>) : t \in {"MultiPoint", "LineString"}}
    \cup {G(t, << <<3, 11>>, <<7, 9>>, <<1, 1>> >>) : t \in {"MultiPoint", "LineString"}}
    \cup {G(t, << <<<<9, 9>>, <<3, 3>>>>, <<<<11, 11>>, <<7, 7>>>> >>) : t \in {"MultiLineString", "Polygon"}}
    \cup {G("Polygon", << <<<<9, 9>>, <<11, 9>>, <<11, 11>>, <<9, 11>>>> >>),
          G("MultiPolygon", << <<<<<<1, 9>>, <<3, 3>>, <<7, 1>>>>>>, <<<<<<1, 11>>, <<3, 7>>, <<7, 3>>>>>> >>)}
    (* a last vertex that equals the first as a number but not as a bit pattern (+0 there, -0 here) *)
    \cup {G("Polygon", << <<<<1, 1>>, <<3, 1>>, <<3, 3>>, <<2, 1>>>> >>), G("LineString", << <<7, 2>>, <<3, 4>>, <<7, 1>> >>),
          G("MultiPolygon", << <<<<<<3, 2>>, <<7, 7>>, <<3, 1>>>>>> >>), G("MultiLineString", << <<<<1, 2>>, <<3, 3>>, <<2, 1>>>> >>)}
    (* ids 12-14: values that a 32-bit float holds exactly (their shortest 64-bit decimal is long, their shortest 32-bit one short) *)
    \cup {G("Point", <<12, 13>>), G("LineString", << <<14, 12>>, <<3, 13>> >>), G("Polygon", << <<<<12, 12>>, <<13, 14>>, <<14, 3>>>> >>),
          G("MultiLineString", << <<<<13, 13>>>>, <<<<12, 3>>, <<3, 12>>>> >>), G("MultiPolygon", << <<<<<<14, 14>>, <<12, 13>>>>>> >>), G("MultiPoint", << <<12, 14>> >>)}
(* C06 only: empty members after a non-empty first member ("at least one vertex in its first member", "arbitrary member counts") *)
WithEmpties(maxm) ==
    {G(t, PathsK(1, v)) : t \in {"MultiLineString", "Polygon"}, v \in {w \in VecsFrom(2, maxm, {0, 2}) : w[1] > 0}}
    \cup {G("MultiPolygon", [p \in DOMAIN vv |-> PathsK(3 * p, vv[p])]) :
              vv \in {w \in VecsFrom(1, 2, VecsFrom(0, 2, {0, 2})) : Len(w[1]) > 0 /\ w[1][1] > 0}}
=============================================================================

-------------------------------- MODULE RouteTrace --------------------------------
(* Trace spec for C19: one network built by AddLink calls in the given order and one ShortestRoute query. *)
EXTENDS Route, TraceIO
VARIABLE cs
Ok(e) == /\ e.ev = "route" /\ e.out = "ok"
         /\ IF "twin" \in DOMAIN cs
            THEN TwinOK(cs.pos, cs.links, cs.twin[1], cs.twin[2]) /\ cs.from = cs.pos[cs.twin[1]] /\ cs.to = cs.pos[cs.twin[2]] /\ e.twinapart
            ELSE NearestUnique(cs.pos, cs.links, cs.from) /\ NearestUnique(cs.pos, cs.links, cs.to)
         /\ e.exact                                        \* the reported totals are the exact sums (integers / quarters)
         /\ \A i \in 1..Len(e.route) : e.route[i] \in 1..Len(cs.links)      \* every returned piece is one of the links
         /\ RouteOK(cs.pos, cs.links, cs.opt, cs.from, cs.to, e.route, e.dist, e.time4)
Apply(e) == UNCHANGED cs
Reset(e) == cs' = e
Keep == UNCHANGED cs
TraceInit == /\ TInit /\ cs = [kind |-> "none"]
             /\ net = 0 /\ opt = 0 /\ s = 0 /\ t = 0 /\ open = {} /\ closed = {} /\ g = 0 /\ phase = "trace"
TraceNext == TStep(Ok, Apply, Reset, Keep) /\ UNCHANGED vars
TraceSpec == TraceInit /\ [][TraceNext]_<<l, fails, cs, vars>>
=============================================================================

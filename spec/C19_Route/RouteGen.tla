--------------------------------- MODULE RouteGen ---------------------------------
(* Case generator for C19: planar networks on five lattice positions; every link is an L-shaped polyline (length =
   |dx| + |dy|) with an optional spike that adds 2, 6 or 40; speeds 1, 2, 4; both options; AddLink order varied. *)
EXTENDS Route, Json
CONSTANTS MG, MC    \* thinning of the planar family and of the cycle family
VARIABLE c
Pos2 == << <<0, 0>>, <<30, 0>>, <<30, 40>>, <<0, 40>>, <<60, 20>> >>
Pairs2 == {<<a, b>> : a \in 1..5, b \in 1..5} \cap {<<a, b>> : a \in 1..5, b \in {x \in 1..5 : x > 0}}
Und == {p \in Pairs2 : p[1] < p[2]}
Manh(p) == (IF Pos2[p[1]][1] > Pos2[p[2]][1] THEN Pos2[p[1]][1] - Pos2[p[2]][1] ELSE Pos2[p[2]][1] - Pos2[p[1]][1])
         + (IF Pos2[p[1]][2] > Pos2[p[2]][2] THEN Pos2[p[1]][2] - Pos2[p[2]][2] ELSE Pos2[p[2]][2] - Pos2[p[1]][2])
Lk(p, ex, sp) == [u |-> p[1], v |-> p[2], len |-> Manh(p) + ex, speed |-> sp, extra |-> ex]
RECURSIVE HashS(_)
HashS(S) == IF S = {} THEN 5 ELSE LET x == CHOOSE y \in S : TRUE IN (x[1] * 31 + x[2] * 7 + 3 * HashS(S \ {x})) % 1009
EdgeSets == TLCEval({ps \in SUBSET Und : Cardinality(ps) >= 1 /\ Cardinality(ps) <= 5 /\ HashS(ps) % MG = 0})
(* link attributes by pattern: link p gets extra Ex[(a i + b) % 4] and speed Sp[(c i + d) % 3], i = PairIdx(p) *)
Ex == <<0, 2, 6, 40>>
Sp == <<1, 2, 4>>
Pats == {<<1, 0, 1, 0>>, <<1, 2, 2, 1>>, <<3, 1, 1, 2>>, <<2, 3, 0, 2>>, <<0, 0, 2, 0>>, <<1, 1, 0, 0>>}
PairIdx(p) == p[1] * 5 + p[2]
ChoiceF(ps, pt) == [p \in ps |-> <<Ex[((pt[1] * PairIdx(p) + pt[2]) % 4) + 1], Sp[((pt[3] * PairIdx(p) + pt[4]) % 3) + 1]>>]
RECURSIVE SeqOfSet2(_, _)
(* two different AddLink orders of the same link set: ascending and descending *)
SeqOfSet2(S, asc) == IF S = {} THEN <<>>
                     ELSE LET x == IF asc THEN CHOOSE y \in S : \A z \in S : y[1] * 10 + y[2] <= z[1] * 10 + z[2]
                                    ELSE CHOOSE y \in S : \A z \in S : y[1] * 10 + y[2] >= z[1] * 10 + z[2]
                          IN <<x>> \o SeqOfSet2(S \ {x}, asc)
LinksOf(ps, f, asc) == LET sq == SeqOfSet2(ps, asc) IN [i \in 1..Len(sq) |-> Lk(sq[i], f[sq[i]][1], f[sq[i]][2])]
Queries2 == {<<1, 1>>, <<31, 2>>, <<29, 41>>, <<58, 19>>, <<2, 38>>}
(* one flat comprehension (nested UNIONs of record sets are quadratic in TLC) *)
Cases == {[kind |-> "route", pos |-> Pos2, links |-> LinksOf(ps, ChoiceF(ps, pt), asc), opt |-> o, from |-> q1, to |-> q2] :
             ps \in EdgeSets, pt \in Pats, asc \in BOOLEAN, o \in {"distance", "time"}, q1 \in Queries2, q2 \in Queries2}
(* the cycle family: four nodes on a line, the 4-cycle 1-2, 2-3, 3-4, 1-4 (the last one is the detour, optionally longer),
   EVERY assignment of speeds, EVERY order of the four AddLink calls, both directions: the configurations in which the
   bookkeeping of the fastest/slowest speed and the admissibility of the travel-time heuristic matter *)
PosC(k) == CASE k = 1 -> << <<0, 0>>, <<10, 0>>, <<110, 0>>, <<120, 0>> >>
             [] k = 2 -> << <<0, 0>>, <<30, 0>>, <<70, 0>>, <<100, 0>> >>
             [] k = 3 -> << <<0, 0>>, <<1000, 0>>, <<11000, 0>>, <<12000, 0>> >>   \* near tie: the detour is longer by 2 in 12000 (squares stay below 2^31)
QPt(k, i) == IF i = 1 THEN <<1, 1>> ELSE <<PosC(k)[4][1] - 1, 1>>
CycPairs == << <<1, 2>>, <<2, 3>>, <<3, 4>>, <<1, 4>> >>
Perm4 == {q \in [1..4 -> 1..4] : \A a \in 1..4, b \in 1..4 : a # b => q[a] # q[b]}
CycLinks(k, sp, ex, q) == [i \in 1..4 |-> LET p == CycPairs[q[i]] IN
                             [u |-> p[1], v |-> p[2], len |-> (PosC(k)[p[2]][1] - PosC(k)[p[1]][1]) + (IF q[i] = 4 THEN ex ELSE 0),
                              speed |-> sp[q[i]], extra |-> IF q[i] = 4 THEN ex ELSE 0]]
CycleCases == {[kind |-> "route", pos |-> PosC(kx[1]), links |-> CycLinks(kx[1], sp, kx[2], q), opt |-> o, from |-> QPt(kx[1], fr), to |-> QPt(kx[1], tt)] :
                  kx \in ({1, 2} \X {0, 2, 40}) \cup {<<3, 2>>}, sp \in [1..4 -> {1, 2, 4}], q \in Perm4, o \in {"time", "distance"},
                  fr \in {1, 4}, tt \in {1, 4}}
CycleThin == {x \in CycleCases : x.from # x.to /\ (x.opt = "time" \/ x.links[1].speed = 4)
                                 /\ (x.links[1].speed + 3 * x.links[2].speed + 5 * x.links[3].len + 7 * x.links[4].u + (IF x.from[1] = 1 THEN 0 ELSE 1)) % MC = 0}
(* the chord family: the chain 1-2-3-4 plus an expensive chord 2-4 and a detour 1-4 whose cost lies between the optimum and
   the cost through the chord: an estimate that trusts a direct link to the goal is not a lower bound *)
ChordPairs == << <<1, 2>>, <<2, 3>>, <<3, 4>>, <<2, 4>>, <<1, 4>> >>
Perm5 == {q \in [1..5 -> 1..5] : \A a \in 1..5, b \in 1..5 : a # b => q[a] # q[b]}
ChordLinks(e1, e2, q) == [i \in 1..5 |-> LET p == ChordPairs[q[i]]
                                             ex == IF q[i] = 4 THEN e1 ELSE IF q[i] = 5 THEN e2 ELSE 0
                                         IN [u |-> p[1], v |-> p[2], len |-> (PosC(1)[p[2]][1] - PosC(1)[p[1]][1]) + ex, speed |-> 1, extra |-> ex]]
ChordCases == {[kind |-> "route", pos |-> PosC(1), links |-> ChordLinks(40, e2, q), opt |-> o, from |-> QPt(1, fr), to |-> QPt(1, tt)] :
                  e2 \in {2, 6}, q \in {x \in Perm5 : (x[1] + 2 * x[2] + 3 * x[3]) % MC = 0}, o \in {"time", "distance"}, fr \in {1, 4}, tt \in {1, 4}}
(* histories: the query is also asked while the network is still being built (after the first 2 or 3 AddLink calls of the
   4-cycle, after the first 4 of the chord family); the answer after the last AddLink has to be the same as without *)
WithPre == {[kind |-> x.kind, pos |-> x.pos, links |-> x.links, opt |-> x.opt, from |-> x.from, to |-> x.to, pre |-> p] :
               x \in {y \in CycleThin : (y.links[1].u + y.links[2].v + y.links[3].len) % 3 = 0}, p \in {2, 3}}
           \cup {[kind |-> x.kind, pos |-> x.pos, links |-> x.links, opt |-> x.opt, from |-> x.from, to |-> x.to, pre |-> 4] :
               x \in {y \in ChordCases : y.from # y.to}}
(* twin queries (see Route!TwinOK) on a thinned part of the planar family and on the 4-cycles *)
Twins == {[kind |-> x.kind, pos |-> x.pos, links |-> x.links, opt |-> x.opt, from |-> x.pos[uv[1]], to |-> x.pos[uv[2]], twin |-> uv] :
             x \in {y \in Cases : y.from = <<1, 1>> /\ y.to = <<31, 2>> /\ (Len(y.links) + y.links[1].len) % 7 = 0}
                   \cup {y \in CycleThin : y.from[1] = 1 /\ (y.links[2].speed + 2 * y.links[3].speed + y.links[1].len) % 11 = 0},
             uv \in {<<1, 2>>, <<2, 1>>, <<2, 3>>, <<4, 3>>, <<1, 4>>}}
(* slow networks: every speed divided by eight (the harness does it, exactly), so that the fastest link covers less than one
   unit of length per unit of time - the routes are the same routes *)
Slow == {[kind |-> x.kind, pos |-> x.pos, links |-> x.links, opt |-> x.opt, from |-> x.from, to |-> x.to, slow |-> 3] :
            x \in {y \in CycleThin : (y.links[1].len + y.links[2].speed + y.links[4].speed) % 5 = 0} \cup {y \in ChordCases : y.from # y.to}}
GenInit == /\ net = 0 /\ opt = 0 /\ s = 0 /\ t = 0 /\ open = {} /\ closed = {} /\ g = 0 /\ phase = "gen"
           /\ c \in {x \in Cases : x.from # x.to /\ NearestUnique(x.pos, x.links, x.from) /\ NearestUnique(x.pos, x.links, x.to)
                                   /\ (x.from[1] * 3 + x.to[1] * 5 + x.from[2]) % 4 = 0} \cup CycleThin \cup {x \in ChordCases : x.from # x.to} \cup WithPre
                   \cup {x \in Twins : TwinOK(x.pos, x.links, x.twin[1], x.twin[2])} \cup Slow
           /\ PrintT(ToJson(c))
GenSpec == GenInit /\ [][UNCHANGED <<vars, c>>]_<<vars, c>>
=============================================================================

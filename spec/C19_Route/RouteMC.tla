--------------------------------- MODULE RouteMC ---------------------------------
EXTENDS Route
(* networks on a line: four nodes, up to MaxLinks links among the six pairs, each with extra length 0 or 6 (a
   perpendicular spike) and speed 1 or 4 *)
CONSTANT MaxLinks
PosLine == <<0, 30, 70, 100>>
PairsL == {<<1, 2>>, <<1, 3>>, <<1, 4>>, <<2, 3>>, <<2, 4>>, <<3, 4>>}
LinkOf(p, ex, sp) == [u |-> p[1], v |-> p[2], len |-> (PosLine[p[2]] - PosLine[p[1]]) + ex, speed |-> sp]
RECURSIVE SeqOfSet(_)
SeqOfSet(S) == IF S = {} THEN <<>> ELSE LET x == CHOOSE y \in S : TRUE IN <<x>> \o SeqOfSet(S \ {x})
LinkChoices(ps) == [ps -> {0, 6} \X {1, 4}]
MCNets == UNION {{[pos |-> PosLine, links |-> SeqOfSet({LinkOf(p, f[p][1], f[p][2]) : p \in ps})] : f \in LinkChoices(ps)} :
                   ps \in {x \in SUBSET PairsL : Cardinality(x) >= 1 /\ Cardinality(x) <= MaxLinks}}
=============================================================================

---------------------------------- MODULE Route ----------------------------------
(* C19 - ShortestRoute returns a minimum-cost chain of links.                      *)
(* A network: nodes 1..N at lattice positions pos[n]; links [u, v, len, speed]     *)
(* (len = length of the link's polyline, an integer; speed in {1, 2, 4}).          *)
(* Cost(l) = 4 * len (option "distance") or 4 * len / speed (option "time"): the   *)
(* factor 4 keeps every cost an integer.                                           *)
(* R1: MinCost (Bellman-Ford), ChainOK, TotalsOK, NearestNode.                     *)
(* R2: A* as gonum runs it - open / closed sets, g scores, expansion of the open   *)
(*     node with the least f = g + h - parameterised by the weight function and    *)
(*     the heuristic the Network supplies (its Weight method and straight-line     *)
(*     distance divided by the fastest speed).  TLC checks that the search ends    *)
(*     with g[goal] = MinCost for every bounded network on a line.  The two        *)
(*     pre-repair behaviours are kept as switches: UnitWeights (the Network did    *)
(*     not satisfy gonum's Weighted interface, so every link cost 1) and           *)
(*     SlowHeuristic (distance divided by the slowest speed: not admissible).      *)
EXTENDS Integers, Sequences, FiniteSets, TLC

Inf == 100000000
MinI(a, b) == IF a < b THEN a ELSE b
Cost(l, opt) == IF opt = "distance" THEN 4 * l.len ELSE (4 * l.len) \div l.speed

(* ------------------------------------------------------------------ R1 *)
Other(l, n) == IF l.u = n THEN l.v ELSE l.u
Touches(l, n) == l.u = n \/ l.v = n
(* Bellman-Ford: dist[k][n] = least cost of a walk of <= k links from s to n *)
RECURSIVE BF(_, _, _, _, _)
BF(links, N, opt, d, k) ==
    IF k = 0 THEN d
    ELSE LET d2 == TLCEval([n \in 1..N |->       \* forced: a lazy function would re-evaluate every earlier round on each access
                     LET via == {d[Other(links[i], n)] + Cost(links[i], opt) : i \in {j \in 1..Len(links) : Touches(links[j], n)}}
                         best == IF via = {} THEN Inf ELSE CHOOSE x \in via : \A y \in via : x <= y
                     IN MinI(d[n], MinI(best, Inf))])
         IN BF(links, N, opt, d2, k - 1)
MinCost(links, N, opt, s, t) == BF(links, N, opt, [n \in 1..N |-> IF n = s THEN 0 ELSE Inf], N)[t]

(* a route is a sequence of link indices *)
RECURSIVE WalkEnd(_, _, _, _)
(* follows the chain from node n; 0 if some link does not touch the current node *)
WalkEnd(links, route, i, n) ==
    IF n = 0 \/ i > Len(route) THEN n
    ELSE IF Touches(links[route[i]], n) THEN WalkEnd(links, route, i + 1, Other(links[route[i]], n)) ELSE 0
ChainOK(links, route, s, t) == (\A i \in 1..Len(route) : route[i] \in 1..Len(links)) /\ WalkEnd(links, route, 1, s) = t
RECURSIVE SumOver(_, _, _)
SumOver(route, f(_), i) == IF i > Len(route) THEN 0 ELSE f(route[i]) + SumOver(route, f, i + 1)
RouteLen(links, route) == SumOver(route, LAMBDA i : links[i].len, 1)
RouteTime4(links, route) == SumOver(route, LAMBDA i : (4 * links[i].len) \div links[i].speed, 1)
RouteCost(links, route, opt) == IF opt = "distance" THEN 4 * RouteLen(links, route) ELSE RouteTime4(links, route)

Dist2(p, q) == (p[1] - q[1]) * (p[1] - q[1]) + (p[2] - q[2]) * (p[2] - q[2])
(* the network node nearest to a query point (the generators keep it unique) *)
UsedNodes(links) == {links[i].u : i \in 1..Len(links)} \cup {links[i].v : i \in 1..Len(links)}
NearestNode(pos, links, q) == CHOOSE n \in UsedNodes(links) : \A m \in UsedNodes(links) : Dist2(pos[n], q) <= Dist2(pos[m], q)
NearestUnique(pos, links, q) == LET b == NearestNode(pos, links, q) IN \A m \in UsedNodes(links) : m # b => Dist2(pos[b], q) < Dist2(pos[m], q)

(* twin queries: the two query points lie a hair's breadth on either side of the midpoint of nodes u and v (the harness places
   them there; `from` and `to` of the case are the nodes' own positions).  They are different points with different nearest
   nodes - u and v - as long as every other node is farther from the midpoint than u and v are (doubled coordinates) *)
TwinOK(pos, links, u, v) == /\ u # v /\ u \in UsedNodes(links) /\ v \in UsedNodes(links)
                            /\ \A m \in UsedNodes(links) \ {u, v} :
                                  Dist2(<<2 * pos[m][1], 2 * pos[m][2]>>, <<pos[u][1] + pos[v][1], pos[u][2] + pos[v][2]>>) > Dist2(pos[u], pos[v])
RouteOK(pos, links, opt, from, to, route, dist, time4) ==
    LET s == NearestNode(pos, links, from)
        t == NearestNode(pos, links, to)
        mc == MinCost(links, Cardinality(DOMAIN pos), opt, s, t)
    IN IF mc >= Inf \/ s = t
       THEN Len(route) = 0 /\ dist = 0 /\ time4 = 0                   \* not connected (or the same node): the route is empty
       ELSE /\ ChainOK(links, route, s, t)                             \* a chain from the start node to the end node
            /\ dist = RouteLen(links, route) /\ time4 = RouteTime4(links, route)     \* reported totals
            /\ RouteCost(links, route, opt) = mc                       \* minimal

(* ------------------------------------------------------------------ R2: A* on a line *)
CONSTANTS Nets,             \* set of networks [pos (x coordinates on a line), links]
          Opts, UnitWeights, SlowHeuristic
VARIABLES net, opt, s, t, open, closed, g, phase
vars == <<net, opt, s, t, open, closed, g, phase>>
NN == Len(net.pos)
Speeds == {net.links[i].speed : i \in 1..Len(net.links)}
FastSpeed == CHOOSE x \in Speeds : \A y \in Speeds : x >= y
SlowSpeed == CHOOSE x \in Speeds : \A y \in Speeds : x <= y
Abs(x) == IF x < 0 THEN -x ELSE x
H(n) == LET d == 4 * Abs(net.pos[n] - net.pos[t])
        IN IF opt = "distance" THEN d ELSE d \div (IF SlowHeuristic THEN SlowSpeed ELSE FastSpeed)
W(l) == IF UnitWeights THEN 1 ELSE Cost(l, opt)
Init == /\ net \in Nets /\ opt \in Opts /\ s \in 1..Len(net.pos) /\ t \in 1..Len(net.pos)
        /\ open = {s} /\ closed = {} /\ g = [n \in 1..Len(net.pos) |-> IF n = s THEN 0 ELSE Inf] /\ phase = "search"
(* expand the open node with the least f (ties: any) *)
Expand == /\ phase = "search" /\ open # {}
          /\ \E u \in open :
               /\ \A x \in open : g[u] + H(u) <= g[x] + H(x)
               /\ IF u = t THEN phase' = "found" /\ UNCHANGED <<open, closed, g>>
                  ELSE LET nb == {i \in 1..Len(net.links) : Touches(net.links[i], u)}
                           g2 == [n \in 1..NN |->
                                    LET c == {g[u] + W(net.links[i]) : i \in {j \in nb : Other(net.links[j], u) = n}}
                                    IN IF c = {} \/ n \in closed THEN g[n] ELSE MinI(g[n], CHOOSE x \in c : \A y \in c : x <= y)]
                       IN /\ g' = g2 /\ closed' = closed \cup {u}
                          /\ open' = (open \ {u}) \cup {n \in 1..NN : g2[n] < g[n]}
                          /\ UNCHANGED phase
          /\ UNCHANGED <<net, opt, s, t>>
GiveUp == phase = "search" /\ open = {} /\ phase' = "none" /\ UNCHANGED <<net, opt, s, t, open, closed, g>>
Next == Expand \/ GiveUp
Spec == Init /\ [][Next]_vars /\ WF_vars(Next)
(* with the Network's real weights and an admissible, consistent heuristic A* ends with the least cost *)
AStarOptimal == /\ (phase = "found" => g[t] = MinCost(net.links, NN, opt, s, t))
                /\ (phase = "none" => MinCost(net.links, NN, opt, s, t) >= Inf)
Terminates == <>(phase # "search")
=============================================================================

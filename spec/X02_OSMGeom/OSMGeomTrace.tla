----------------------------- MODULE OSMGeomTrace -----------------------------
(* Trace spec for X02: the items returned by Data.Geom() on the real code, their type statistics and tag counts. *)
EXTENDS OSMGeom, TraceIO
VARIABLE cs
(* sets arrive as JSON arrays *)
SetOf(s) == {s[i] : i \in 1..Len(s)}
DocOf(x) == [order |-> x.order, mem |-> x.mem, inb |-> SetOf(x.inb), tag |-> SetOf(x.tag)]
Ok(e) == LET d == DocOf(cs.doc) IN
         /\ e.ev = "osmgeom" /\ e.out = "ok" /\ e.err = ""
         /\ ItemsOK(d, e.items)
         /\ e.dominant = Dominant(SumCounts(d))
         /\ (HasEmptyWay(d) \/ e.tagcounts = TagCounts(d))
Apply(e) == UNCHANGED cs
Reset(e) == cs' = e
Keep == UNCHANGED cs
TraceInit == TInit /\ cs = [kind |-> "none"]
TraceNext == TStep(Ok, Apply, Reset, Keep)
TraceSpec == TraceInit /\ [][TraceNext]_<<l, fails, cs>>
=============================================================================

------------------------------ MODULE OSMGeomGen ------------------------------
(* Case generator for X02: the document universes of OSMExtractMC plus documents with closed ways, relations of every
   member mix, nested relations and relation cycles reached from a top-level relation. *)
EXTENDS OSMGeom, Json
CONSTANT Thorough
VARIABLE c
M == INSTANCE OSMExtractMC WITH W <- 1, KEEP <- "all", Docs <- {}, doc <- 0, kept <- 0, need <- 0, nextIdx <- 0, slot <- 0,
                                needAnother <- 0, done <- 0, pass <- 0
N(i) == <<"n", i>>
Wy(i) == <<"w", i>>
R(i) == <<"r", i>>
D(order, mem, tag) == [order |-> order, mem |-> mem, inb |-> {}, tag |-> tag]
Nodes4 == <<N(1), N(2), N(3), N(4)>>
Tri == <<N(1), N(2), N(3), N(1)>>            \* a closed way
Tri2 == <<N(2), N(4), N(3), N(2)>>
Open == <<N(1), N(4), N(2)>>
Extra == {
  D(Nodes4 \o <<Wy(1)>>, << <<Wy(1), Tri>> >>, {Wy(1)}),
  D(Nodes4 \o <<Wy(1), Wy(2), R(1)>>, << <<Wy(1), Tri>>, <<Wy(2), Tri2>>, <<R(1), <<Wy(1), Wy(2)>>>> >>, {R(1)}),          \* polygon relation
  D(Nodes4 \o <<Wy(1), Wy(2), R(1)>>, << <<Wy(1), Tri>>, <<Wy(2), Open>>, <<R(1), <<Wy(1), Wy(2)>>>> >>, {R(1)}),          \* mixed: collection
  D(Nodes4 \o <<Wy(1), Wy(2), R(1)>>, << <<Wy(1), Open>>, <<Wy(2), <<N(3), N(4)>>>>, <<R(1), <<Wy(1), Wy(2), Wy(7)>>>> >>, {}),   \* lines, one absent
  D(Nodes4 \o <<R(1)>>, << <<R(1), <<N(1), N(3), N(9)>>>> >>, {R(1)}),                                                      \* multipoint, one absent
  D(Nodes4 \o <<Wy(1), R(1), R(2), R(3)>>, << <<Wy(1), Open>>, <<R(1), <<R(2), N(1)>>>>, <<R(2), <<R(3), Wy(1)>>>>, <<R(3), <<R(2), N(4)>>>> >>, {R(2)}),  \* cycle below a top-level relation
  D(Nodes4 \o <<R(1), R(2)>>, << <<R(1), <<R(2), R(2), N(1)>>>>, <<R(2), <<N(2), N(3)>>>> >>, {}),                           \* the same sub-relation twice
  D(Nodes4 \o <<R(1), R(2), R(3)>>, << <<R(1), <<R(2), R(3)>>>>, <<R(2), <<R(3), N(1)>>>>, <<R(3), <<N(2)>>>> >>, {}),        \* a relation reached by two paths
  D(Nodes4 \o <<Wy(1), Wy(2)>>, << <<Wy(1), <<N(8), N(9)>>>>, <<Wy(2), <<>>>> >>, {Wy(1)}),                                  \* a way of absent nodes, a way without nodes
  D(<<R(1)>>, << <<R(1), <<>>>> >>, {R(1)}),                                                                                   \* a relation without members
  D(Nodes4 \o <<Wy(1), R(1)>>, << <<Wy(1), <<N(1), N(9), N(2), N(1)>>>>, <<R(1), <<Wy(1), R(9)>>>> >>, {Wy(1)})               \* absent relation member
}
(* observation (DESIGN.md 9.7): a relation whose members are all closed ways panics in op.FixOrientation (index -1) when one
   of the rings has a single vertex; such documents are left out so that the rest of the conversion is examined *)
TinyRingRelation(d) == \E r \in Objs(d) : r[1] = "r" /\ Len(Mem(d, r)) > 0
                          /\ (\A i \in 1..Len(Mem(d, r)) : IsPolyMember(d, Mem(d, r)[i]))
                          /\ (\E i \in 1..Len(Mem(d, r)) : Len(WayPts(d, Mem(d, r)[i])) < 2)
Docs0 == Extra \cup M!Curated \cup (IF Thorough THEN M!FamFull ELSE M!FamSmall)
Docs == {d \in Docs0 : ~TinyRingRelation(d)}
GenInit == c \in {[kind |-> "osmgeom", doc |-> d] : d \in Docs} /\ PrintT(ToJson(c))
GenSpec == GenInit /\ [][UNCHANGED c]_c
=============================================================================

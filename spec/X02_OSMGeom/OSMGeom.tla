-------------------------------- MODULE OSMGeom --------------------------------
(* X02 (extension, not one of the listed properties): conversion of extracted OSM data to geometries,            *)
(* Data.Geom(), and the tag / type statistics CountTags, DominantType.                                        *)
(* Documents are those of OSMExtract ([order, mem, inb, tag]); node i lies at (i, i*i mod 11).  Everything is    *)
(* extracted with KeepAll, so an object is *dependent* exactly when some object of the document names it as a    *)
(* member, and Geom() yields one item per object that nothing depends on:                                        *)
(*   node      -> Point                                                                                          *)
(*   way       -> Polygon (one ring) when its first and last node ids coincide, else LineString; nodes that are  *)
(*                missing from the document are skipped                                                          *)
(*   relation  -> Polygon if every member is a closed way that is present, MultiLineString if every member is a  *)
(*                way that is not (an absent way counts here and contributes nothing), MultiPoint if every       *)
(*                member is a node, otherwise a GeometryCollection built member by member; relations nest,       *)
(*                a relation that has already been entered during this conversion is skipped (cycles).           *)
(* Rings of a relation polygon are normalised by op.FixOrientation, so they are compared up to reversal.         *)
EXTENDS Integers, Sequences, FiniteSets, TLC

G(t, m) == [t |-> t, m |-> m]
Objs(d) == {d.order[i] : i \in 1..Len(d.order)}
Mem(d, o) == LET I == {i \in 1..Len(d.mem) : d.mem[i][1] = o} IN IF I = {} THEN <<>> ELSE d.mem[CHOOSE i \in I : TRUE][2]
Dependent(d) == UNION {{Mem(d, o)[i] : i \in 1..Len(Mem(d, o))} : o \in Objs(d)}
Pt(n) == <<n[2], (n[2] * n[2]) % 11>>
Present(d, o) == o \in Objs(d)
(* the points of the nodes of a member list that are present, in order *)
RECURSIVE PtsOf(_, _, _)
PtsOf(d, ns, i) == IF i > Len(ns) THEN <<>> ELSE (IF Present(d, ns[i]) THEN <<Pt(ns[i])>> ELSE <<>>) \o PtsOf(d, ns, i + 1)
WayPts(d, w) == PtsOf(d, Mem(d, w), 1)
ClosedWay(d, w) == Len(Mem(d, w)) > 0 /\ Mem(d, w)[1] = Mem(d, w)[Len(Mem(d, w))]
WayGeom(d, w) == IF ClosedWay(d, w) THEN G("Polygon", <<WayPts(d, w)>>) ELSE G("LineString", WayPts(d, w))

IsPolyMember(d, m) == m[1] = "w" /\ Present(d, m) /\ ClosedWay(d, m)
Count(ms, P(_)) == Cardinality({i \in 1..Len(ms) : P(ms[i])})
RECURSIVE MapWays(_, _, _, _)
(* f = "ring" | "line": rings / lines of the member ways that are present *)
MapWays(d, ms, f, i) == IF i > Len(ms) THEN <<>>
                        ELSE (IF Present(d, ms[i]) THEN <<WayPts(d, ms[i])>> ELSE <<>>) \o MapWays(d, ms, f, i + 1)

RECURSIVE RelGeom(_, _, _)
RECURSIVE CollFrom(_, _, _, _, _)
(* conversion of relation r with the set st of relations already entered; result [g, st] *)
RelGeom(d, r, st) ==
    LET ms == Mem(d, r)
        nP == Count(ms, LAMBDA m : IsPolyMember(d, m))
        nL == Count(ms, LAMBDA m : m[1] = "w" /\ ~IsPolyMember(d, m))
        nN == Count(ms, LAMBDA m : m[1] = "n")
    IN IF nP = Len(ms) THEN [g |-> G("Polygon", MapWays(d, ms, "ring", 1)), st |-> st]
       ELSE IF nL = Len(ms) THEN [g |-> G("MultiLineString", MapWays(d, ms, "line", 1)), st |-> st]
       ELSE IF nN = Len(ms) THEN [g |-> G("MultiPoint", PtsOf(d, ms, 1)), st |-> st]
       ELSE CollFrom(d, ms, 1, <<>>, st)
CollFrom(d, ms, i, acc, st) ==
    IF i > Len(ms) THEN [g |-> G("GeometryCollection", acc), st |-> st]
    ELSE LET m == ms[i] IN
         CASE m[1] = "w" -> CollFrom(d, ms, i + 1, IF Present(d, m) /\ Len(Mem(d, m)) > 0 THEN Append(acc, WayGeom(d, m)) ELSE acc, st)
           [] m[1] = "n" -> CollFrom(d, ms, i + 1, IF Present(d, m) THEN Append(acc, G("Point", Pt(m))) ELSE acc, st)
           [] m[1] = "r" -> IF m \in st THEN CollFrom(d, ms, i + 1, acc, st)
                            ELSE IF ~Present(d, m) THEN CollFrom(d, ms, i + 1, acc, st \cup {m})
                            ELSE LET sub == RelGeom(d, m, st \cup {m})
                                 IN CollFrom(d, ms, i + 1, Append(acc, sub.g), sub.st)

TopLevel(d) == Objs(d) \ Dependent(d)
ItemOf(d, o) == CASE o[1] = "n" -> G("Point", Pt(o))
                  [] o[1] = "w" -> WayGeom(d, o)
                  [] o[1] = "r" -> RelGeom(d, o, {}).g
(* a way without any node reference yields no item *)
Yields(d, o) == o[1] # "w" \/ Len(Mem(d, o)) > 0
Expected(d) == {[g |-> ItemOf(d, o), tag |-> o \in d.tag] : o \in {x \in TopLevel(d) : Yields(d, x)}}

(* ------------------------------------------------------------------ comparison up to ring reversal *)
RevSeq(s) == [i \in 1..Len(s) |-> s[Len(s) + 1 - i]]
RECURSIVE GeomSame(_, _)
GeomSame(a, b) ==
    /\ a.t = b.t
    /\ CASE a.t = "Polygon" -> Len(a.m) = Len(b.m) /\ \A i \in 1..Len(a.m) : b.m[i] = a.m[i] \/ b.m[i] = RevSeq(a.m[i])
         [] a.t = "GeometryCollection" -> Len(a.m) = Len(b.m) /\ \A i \in 1..Len(a.m) : GeomSame(a.m[i], b.m[i])
         [] OTHER -> a.m = b.m
(* the recorded items are a permutation of the expected ones (map iteration order is free) *)
ItemsOK(d, items) ==
    /\ Len(items) = Cardinality({x \in TopLevel(d) : Yields(d, x)})
    /\ \E f \in {h \in [1..Len(items) -> {x \in TopLevel(d) : Yields(d, x)}] : \A i \in 1..Len(items), j \in 1..Len(items) : i # j => h[i] # h[j]} :
          \A i \in 1..Len(items) : GeomSame(ItemOf(d, f[i]), items[i].g) /\ items[i].tag = (f[i] \in d.tag)

(* ------------------------------------------------------------------ statistics *)
(* DominantType over the items: points win ties, then lines, then polygons *)
RECURSIVE TypeCounts(_)
TypeCounts(g) == CASE g.t \in {"Point", "MultiPoint"} -> <<1, 0, 0>>
                   [] g.t \in {"LineString", "MultiLineString"} -> <<0, 1, 0>>
                   [] g.t = "Polygon" -> <<0, 0, 1>>
                   [] g.t = "GeometryCollection" ->
                        LET RECURSIVE S(_)
                            S(i) == IF i > Len(g.m) THEN <<0, 0, 0>>
                                    ELSE LET a == TypeCounts(g.m[i])  b == S(i + 1) IN <<a[1] + b[1], a[2] + b[2], a[3] + b[3]>>
                        IN S(1)
SumCounts(d) == LET tl == {x \in TopLevel(d) : Yields(d, x)}
                    RECURSIVE S(_)
                    S(T) == IF T = {} THEN <<0, 0, 0>>
                            ELSE LET o == CHOOSE x \in T : TRUE
                                     a == TypeCounts(ItemOf(d, o))  b == S(T \ {o})
                                 IN <<a[1] + b[1], a[2] + b[2], a[3] + b[3]>>
                IN S(tl)
Dominant(c) == IF c[1] >= c[2] /\ c[1] >= c[3] THEN "point" ELSE IF c[2] >= c[3] THEN "line" ELSE "poly"
(* Data.CountTags: for the tag k = v, how many nodes, closed ways, open ways and relations of the kept data carry it
   (a way without node references has no first node: it is left out of the generator for this observation) *)
TagCounts(d) == LET T == Objs(d) \cap d.tag IN
                <<Cardinality({o \in T : o[1] = "n"}), Cardinality({o \in T : o[1] = "w" /\ ClosedWay(d, o)}),
                  Cardinality({o \in T : o[1] = "w" /\ ~ClosedWay(d, o)}), Cardinality({o \in T : o[1] = "r"})>>
HasEmptyWay(d) == \E o \in Objs(d) : o[1] = "w" /\ Len(Mem(d, o)) = 0
=============================================================================

-------------------------------- MODULE Similar --------------------------------
(* C15 - Similar is a symmetric tolerance comparison that ignores only the        *)
(* documented reorderings.                                                        *)
(* R1: Sim(g, h, tol) - same type; same member / vertex counts; a BIJECTION        *)
(*     between the members of multi-line strings, multi-polygons, polygons (rings) *)
(*     and collections with pairwise similar members (permutations enumerated);    *)
(*     closed rings compared up to rotation of the start vertex; everything else   *)
(*     position by position with |dx| < tol and |dy| < tol.                        *)
(* R2: the code's greedy matching (consume the first still-unmatched similar       *)
(*     member) with the member-count check, transcribed; TLC checks it equal to R1 *)
(*     on the generated universe (members are far apart, so matching is            *)
(*     unambiguous and greedy = bijection).                                        *)
EXTENDS GeomVal, FiniteSets, TLC

AbsV(x) == IF x < 0 THEN -x ELSE x
PtSim(p, q, tol) == AbsV(p[1] - q[1]) < tol /\ AbsV(p[2] - q[2]) < tol
PtsSim(a, b, tol) == Len(a) = Len(b) /\ \A i \in 1..Len(a) : PtSim(a[i], b[i], tol)
PtssSim(a, b, tol) == Len(a) = Len(b) /\ \A i \in 1..Len(a) : PtsSim(a[i], b[i], tol)

IsClosedRing(r) == Len(r) >= 2 /\ r[1] = r[Len(r)]
RotOpen(r, k) == [i \in 1..Len(r) |-> r[((i - 1 + k) % Len(r)) + 1]]
(* rings: equal length; closed rings up to rotation of the open part, others position by position *)
RingSim(a, b, tol) ==
    /\ Len(a) = Len(b)
    /\ IF IsClosedRing(a) /\ IsClosedRing(b)
       THEN LET oa == SubSeq(a, 1, Len(a) - 1)
                ob == SubSeq(b, 1, Len(b) - 1)
            IN Len(oa) = 0 \/ \E k \in 0..(Len(oa) - 1) : PtsSim(oa, RotOpen(ob, k), tol)
       ELSE PtsSim(a, b, tol)

Perms(n) == {f \in [1..n -> 1..n] : \A i \in 1..n, j \in 1..n : i # j => f[i] # f[j]}

(* member relations are named by a tag, because recursive operators cannot take operator arguments:
   "pts" line strings, "ring" polygon rings, "poly" polygons, "geom" collection members *)
RECURSIVE Sim(_, _, _)
RECURSIVE Rel(_, _, _, _)
(* a bijection between two member sequences under the member relation `kind` *)
Bij(a, b, kind, tol) == Len(a) = Len(b) /\ \E f \in Perms(Len(a)) : \A i \in 1..Len(a) : Rel(kind, a[i], b[f[i]], tol)
Rel(kind, x, y, tol) == CASE kind = "pts" -> PtsSim(x, y, tol)
                          [] kind = "ring" -> RingSim(x, y, tol)
                          [] kind = "poly" -> Bij(x, y, "ring", tol)
                          [] kind = "geom" -> Sim(x, y, tol)
Sim(g, h, tol) ==
    /\ g.t = h.t
    /\ CASE g.t = "Point" -> PtSim(g.m, h.m, tol)
         [] g.t \in {"MultiPoint", "LineString"} -> PtsSim(g.m, h.m, tol)
         [] g.t = "Bounds" -> PtSim(g.m[1], h.m[1], tol) /\ PtSim(g.m[2], h.m[2], tol)
         [] g.t = "MultiLineString" -> Bij(g.m, h.m, "pts", tol)
         [] g.t = "Polygon" -> Bij(g.m, h.m, "ring", tol)
         [] g.t = "MultiPolygon" -> Bij(g.m, h.m, "poly", tol)
         [] g.t = "GeometryCollection" -> Bij(g.m, h.m, "geom", tol)

(* ------------------------------------------------------------------ R2: greedy matching as in similar.go *)
RemoveIdx(s, i) == SubSeq(s, 1, i - 1) \o SubSeq(s, i + 1, Len(s))
RECURSIVE Impl(_, _, _)
RECURSIVE IRel(_, _, _, _)
RECURSIVE Greedy(_, _, _, _, _)
(* for each member of a in order, consume the first remaining member of b that matches *)
Greedy(a, i, rest, kind, tol) ==
    IF i > Len(a) THEN TRUE
    ELSE LET I == {j \in 1..Len(rest) : IRel(kind, a[i], rest[j], tol)}
         IN IF I = {} THEN FALSE
            ELSE Greedy(a, i + 1, RemoveIdx(rest, CHOOSE j \in I : \A k \in I : j <= k), kind, tol)
GreedyMatch(a, b, kind, tol) == Len(a) = Len(b) /\ Greedy(a, 1, b, kind, tol)
IRel(kind, x, y, tol) == CASE kind = "pts" -> PtsSim(x, y, tol)
                           [] kind = "ring" -> RingSim(x, y, tol)
                           [] kind = "poly" -> GreedyMatch(x, y, "ring", tol)
                           [] kind = "geom" -> Impl(x, y, tol)
Impl(g, h, tol) ==
    /\ g.t = h.t
    /\ CASE g.t = "Point" -> PtSim(g.m, h.m, tol)
         [] g.t \in {"MultiPoint", "LineString"} -> PtsSim(g.m, h.m, tol)
         [] g.t = "Bounds" -> PtSim(g.m[1], h.m[1], tol) /\ PtSim(g.m[2], h.m[2], tol)
         [] g.t = "MultiLineString" -> GreedyMatch(g.m, h.m, "pts", tol)
         [] g.t = "Polygon" -> GreedyMatch(g.m, h.m, "ring", tol)
         [] g.t = "MultiPolygon" -> GreedyMatch(g.m, h.m, "poly", tol)
         [] g.t = "GeometryCollection" -> GreedyMatch(g.m, h.m, "geom", tol)

(* ------------------------------------------------------------------ universe: base geometries and mutations *)
Tol == 10
G(t, m) == [t |-> t, m |-> m]
Box(x, y, w) == << <<x, y>>, <<x + w, y>>, <<x + w, y + w>>, <<x, y + w>>, <<x, y>> >>          \* closed, two left-most vertices tie on x
TriC(x, y, w) == << <<x, y>>, <<x + w, y + 30>>, <<x + 40, y + w>>, <<x, y>> >>
OpenRing(x, y, w) == << <<x, y>>, <<x + w, y>>, <<x + w, y + w>> >>                              \* an unclosed ring
BowTie(x, y, w) == << <<x, y>>, <<x + w, y + w>>, <<x + w, y>>, <<x, y + w>>, <<x, y>> >>
Sliver(x, y, w) == << <<x, y>>, <<x + 2 * w, y>>, <<x + w, y>>, <<x, y>> >>
(* a ring that passes through its first vertex twice (two triangles joined at a corner, as a clipper writes them) *)
Pinch(x, y, w) == << <<x, y>>, <<x + w, y>>, <<x + w, y + w>>, <<x, y>>, <<x - w, y>>, <<x - w, y - w>>, <<x, y>> >>
L1 == << <<0, 0>>, <<100, 50>>, <<200, 0>> >>
L2 == << <<1000, 0>>, <<1100, 70>> >>
L3 == << <<0, 1000>>, <<300, 1300>>, <<100, 1500>>, <<0, 1200>> >>
P1 == << Box(0, 0, 600), Box(100, 100, 100), TriC(300, 300, 100) >>
P2 == << TriC(2000, 0, 500) >>
P3 == << Box(0, 3000, 400), OpenRing(100, 3100, 100) >>
Bases == { G("Point", <<50, 60>>), G("MultiPoint", L1), G("LineString", L3), G("MultiLineString", <<L1, L2, L3>>),
           G("Polygon", P1), G("Polygon", P3), G("MultiPolygon", <<P1, P2, P3>>), G("Bounds", << <<0, 0>>, <<300, 200>> >>),
           G("GeometryCollection", << G("Point", <<50, 60>>), G("LineString", L2), G("Polygon", P2),
                                      G("GeometryCollection", << G("MultiPoint", L1), G("Point", <<5000, 5000>>) >>) >>),
           G("MultiLineString", <<>>), G("Polygon", <<>>), G("GeometryCollection", <<>>),
           (* closed lines: a line string is compared position by position even when its last vertex repeats the first *)
           G("LineString", Box(0, 7000, 300)), G("MultiLineString", <<Box(0, 8000, 300), L2>>), G("MultiPoint", Box(0, 9000, 300)),
           (* closed rings that enclose nothing (a symmetric bow-tie, a ring folded onto a line): every derived quantity of
              such a ring - its area, its winding direction - is decided by perturbations far below the tolerance *)
           G("Polygon", <<BowTie(0, 11000, 200)>>), G("Polygon", <<Sliver(0, 12000, 100), Box(1000, 12000, 100)>>),
           G("MultiPolygon", << <<BowTie(0, 13000, 200)>>, <<Box(1000, 13000, 100), Sliver(1010, 13050, 30)>> >>),
           G("Polygon", <<Pinch(500, 15000, 100)>>), G("MultiPolygon", << <<Box(0, 16000, 300), Pinch(150, 16150, 40)>> >>) }

(* vertex-wise maps (depend on the vertex value only, so a closing vertex moves with its twin); a map is named
   by a record: [k |-> "jig", s] moves every coordinate by < Tol, [k |-> "disp", target, dx, dy] moves one vertex,
   [k |-> "shift"] moves everything far away *)
VF(f, v) == CASE f.k = "jig" -> <<v[1] + (((v[1] * 7 + v[2] * 3 + f.s) % 19) - 9), v[2] + (((v[1] * 5 + v[2] * 11 + 2 * f.s) % 19) - 9)>>
              [] f.k = "disp" -> IF v = f.target THEN <<v[1] + f.dx, v[2] + f.dy>> ELSE v
              [] f.k = "shift" -> <<v[1] + 7000, v[2] + 7000>>
MapPath(ps, f) == [i \in DOMAIN ps |-> VF(f, ps[i])]
RECURSIVE MapV(_, _)
MapV(g, f) ==
    CASE g.t = "Point" -> G(g.t, VF(f, g.m))
      [] g.t \in {"MultiPoint", "LineString"} -> G(g.t, MapPath(g.m, f))
      [] g.t \in {"MultiLineString", "Polygon"} -> G(g.t, [i \in DOMAIN g.m |-> MapPath(g.m[i], f)])
      [] g.t = "MultiPolygon" -> G(g.t, [i \in DOMAIN g.m |-> [j \in DOMAIN g.m[i] |-> MapPath(g.m[i][j], f)]])
      [] g.t = "GeometryCollection" -> G(g.t, [i \in DOMAIN g.m |-> MapV(g.m[i], f)])
      [] g.t = "Bounds" -> G(g.t, <<VF(f, g.m[1]), VF(f, g.m[2])>>)
JigF(s) == [k |-> "jig", s |-> s, target |-> <<0, 0>>, dx |-> 0, dy |-> 0]
DispF(t, dx, dy) == [k |-> "disp", s |-> 0, target |-> t, dx |-> dx, dy |-> dy]
ShiftF == [k |-> "shift", s |-> 0, target |-> <<0, 0>>, dx |-> 0, dy |-> 0]
Verts(g) == {Flatten(g)[i] : i \in 1..Len(Flatten(g))}

(* positional maps: vertex number k in storage order is moved, independently of any other vertex with the same
   value (so the closing vertex of a ring can move away from its twin) *)
RECURSIVE SumLens(_, _)
SumLens(ms, n) == IF n = 0 THEN 0 ELSE SumLens(ms, n - 1) + Len(ms[n])
RECURSIVE SumGLens(_, _)
SumGLens(ms, n) == IF n = 0 THEN 0 ELSE SumGLens(ms, n - 1) + GLen(ms[n])
Sub(pts, off, n) == SubSeq(pts, off + 1, off + n)
PathsFrom(ms, pts, off) == [i \in DOMAIN ms |-> Sub(pts, off + SumLens(ms, i - 1), Len(ms[i]))]
RECURSIVE Rebuild(_, _, _)
Rebuild(g, pts, off) ==
    CASE g.t = "Point" -> G(g.t, pts[off + 1])
      [] g.t \in {"MultiPoint", "LineString"} -> G(g.t, Sub(pts, off, Len(g.m)))
      [] g.t \in {"MultiLineString", "Polygon"} -> G(g.t, PathsFrom(g.m, pts, off))
      [] g.t = "MultiPolygon" ->
            G(g.t, [p \in DOMAIN g.m |-> PathsFrom(g.m[p], pts, off + SumGLens([q \in DOMAIN g.m |-> G("Polygon", g.m[q])], p - 1))])
      [] g.t = "GeometryCollection" -> G(g.t, [i \in DOMAIN g.m |-> Rebuild(g.m[i], pts, off + SumGLens(g.m, i - 1))])
MoveAt(g, k, d) == LET f == Flatten(g) IN Rebuild(g, [f EXCEPT ![k] = <<f[k][1] + d[1], f[k][2] + d[2]>>], 0)
HasBounds(g) == g.t = "Bounds" \/ (g.t = "GeometryCollection" /\ \E i \in DOMAIN g.m : g.m[i].t \in {"Bounds", "GeometryCollection"})
Positional(g) == IF HasBounds(g) THEN {} ELSE {MoveAt(g, k, d) : k \in 1..GLen(g), d \in {<<11, 0>>, <<0, 12>>, <<-9, 9>>}}

(* structural mutations of the top-level member sequence *)
HasMembers(g) == g.t \in {"MultiLineString", "Polygon", "MultiPolygon", "GeometryCollection"}
Permuted(g) == {G(g.t, [i \in DOMAIN g.m |-> g.m[f[i]]]) : f \in Perms(Len(g.m))}
Deleted(g) == {G(g.t, RemoveIdx(g.m, i)) : i \in DOMAIN g.m}
Inserted(g) == IF Len(g.m) = 0 THEN {} ELSE {G(g.t, Append(g.m, MapV(G(g.t, <<g.m[1]>>), ShiftF).m[1]))}
(* insertion of *empty* members: the member count changes although no vertex is added (at either end of the sequence) *)
InsertedEmpty(g) == CASE g.t \in {"MultiLineString", "Polygon"} -> {G(g.t, Append(g.m, <<>>)), G(g.t, <<<<>>>> \o g.m), G(g.t, Append(Append(g.m, <<>>), <<>>))}
                      [] g.t = "MultiPolygon" /\ Len(g.m) > 0 -> {G(g.t, Append(g.m, <<>>)), G(g.t, [g.m EXCEPT ![1] = Append(g.m[1], <<>>)])}
                      [] g.t = "GeometryCollection" -> {G(g.t, Append(g.m, G("LineString", <<>>)))}
                      [] OTHER -> {}
RotRing(r, k) == IF IsClosedRing(r) THEN LET o == RotOpen(SubSeq(r, 1, Len(r) - 1), k) IN Append(o, o[1]) ELSE r
Rotated(g) == CASE g.t \in {"LineString", "MultiPoint"} /\ IsClosedRing(g.m) -> {G(g.t, RotRing(g.m, k)) : k \in 1..3}
                [] g.t = "MultiLineString" /\ Len(g.m) > 0 /\ IsClosedRing(g.m[1]) -> {G(g.t, [g.m EXCEPT ![1] = RotRing(g.m[1], k)]) : k \in 1..3}
                [] g.t = "Polygon" -> {G(g.t, [i \in DOMAIN g.m |-> RotRing(g.m[i], k)]) : k \in 1..3}
                [] g.t = "MultiPolygon" -> {G(g.t, [i \in DOMAIN g.m |-> [j \in DOMAIN g.m[i] |-> RotRing(g.m[i][j], k)]]) : k \in 1..2}
                [] OTHER -> {}
RevSeq(s) == [i \in 1..Len(s) |-> s[Len(s) + 1 - i]]
Reversed(g) == CASE g.t = "LineString" -> {G(g.t, RevSeq(g.m))}
                 [] g.t = "MultiLineString" /\ Len(g.m) > 0 -> {G(g.t, [g.m EXCEPT ![1] = RevSeq(g.m[1])])}
                 [] OTHER -> {}
Retyped(g) == CASE g.t = "LineString" -> {G("MultiPoint", g.m)}
                [] g.t = "MultiPoint" -> {G("LineString", g.m)}
                [] g.t = "Polygon" -> {G("MultiLineString", g.m)}
                [] g.t = "MultiLineString" -> {G("Polygon", g.m)}
                [] g.t = "Point" -> {G("MultiPoint", <<g.m>>)}
                [] g.t = "Bounds" ->      \* the rectangle as a polygon (open and closed ring, two start corners): another type
                     LET a == g.m[1]  b == g.m[2]
                         r == << a, <<b[1], a[2]>>, b, <<a[1], b[2]>> >>
                     IN {G("Polygon", <<r>>), G("Polygon", <<Append(r, a)>>), G("Polygon", << <<r[2], r[3], r[4], r[1]>> >>), G("MultiPoint", <<a, b>>)}
                [] OTHER -> {}
Mutants(g) ==
    {g} \cup {MapV(g, JigF(s)) : s \in 0..2}
    \cup {MapV(g, DispF(v, d[1], d[2])) : v \in Verts(g), d \in {<<11, 0>>, <<0, -11>>, <<50, 50>>, <<9, -9>>}}
    \cup (IF HasMembers(g) THEN Permuted(g) \cup Deleted(g) \cup Inserted(g) ELSE {})
    \cup Rotated(g) \cup Reversed(g) \cup Retyped(g) \cup Positional(g) \cup InsertedEmpty(g)
    \cup (IF HasMembers(g) THEN {MapV(x, JigF(1)) : x \in Permuted(g)} ELSE {}) \cup {MapV(x, JigF(1)) : x \in Rotated(g)}
(* duplicate members: {a, a, b} against {a, b, b} and {a, b, c} - the matching has to be one to one *)
DupOf(t, a, b, c) == {<<G(t, <<a, a, b>>), G(t, <<a, b, b>>)>>, <<G(t, <<a, a, b>>), G(t, <<a, b, c>>)>>, <<G(t, <<a, a, b>>), G(t, <<b, a, a>>)>>,
                      <<G(t, <<a, a, b>>), G(t, <<b, a, b>>)>>}
DupPairs == DupOf("MultiLineString", L1, L2, L3) \cup DupOf("Polygon", Box(0, 0, 600), Box(100, 100, 100), TriC(300, 300, 100))
            \cup DupOf("MultiPolygon", P1, P2, P3)
            \cup DupOf("GeometryCollection", G("Point", <<50, 60>>), G("LineString", L2), G("Polygon", P2))
Pairs == UNION {{<<g, h>> : h \in Mutants(g)} : g \in Bases} \cup DupPairs
         \cup UNION {{<<x, y>> : x \in InsertedEmpty(g), y \in InsertedEmpty(g)} : g \in Bases}      \* empty members on both sides

VARIABLE pr
Init == pr \in Pairs
Spec == Init /\ [][UNCHANGED pr]_pr
R2EqualsR1 == Impl(pr[1], pr[2], Tol) = Sim(pr[1], pr[2], Tol) /\ Impl(pr[2], pr[1], Tol) = Sim(pr[2], pr[1], Tol)
Symmetric == Sim(pr[1], pr[2], Tol) = Sim(pr[2], pr[1], Tol)
=============================================================================

----------------------------- MODULE SimilarTrace -----------------------------
(* Trace spec for C15: g.Similar(h, tol) and h.Similar(g, tol) on the real code must both equal Sim(g, h, tol). *)
EXTENDS Similar, TraceIO
VARIABLE cs
Ok(e) == /\ e.ev = "similar" /\ e.out = "ok"
         /\ e.gh = Sim(cs.g, cs.h, cs.tol)
         /\ e.hg = e.gh                                   \* symmetric
         /\ e.inputsame                                    \* neither operand has been written to
         /\ e.agh = e.gh /\ e.ahg = e.hg                   \* the same answers when the two values share their storage
Apply(e) == UNCHANGED cs
Reset(e) == cs' = e
Keep == UNCHANGED cs
TraceInit == TInit /\ cs = [kind |-> "none"] /\ pr = <<>>
TraceNext == TStep(Ok, Apply, Reset, Keep) /\ UNCHANGED pr
TraceSpec == TraceInit /\ [][TraceNext]_<<l, fails, cs, pr>>
=============================================================================

------------------------------ MODULE SimilarGen ------------------------------
EXTENDS Similar, Json
VARIABLE c
GenInit == pr = <<>> /\ c \in {[kind |-> "sim", g |-> p[1], h |-> p[2], tol |-> Tol] : p \in Pairs} /\ PrintT(ToJson(c))
GenSpec == GenInit /\ [][UNCHANGED <<pr, c>>]_<<pr, c>>
=============================================================================

------------------------------ MODULE SimilarGen ------------------------------
EXTENDS Similar, Json
VARIABLE c
(* "for any positive tolerance": part of the pairs is also compared with every coordinate and the tolerance multiplied by 2^sh
   (the harness does it, exactly) - a tolerance of 10 * 2^-600, coordinates of the order of 2^610 *)
RECURSIVE HashG(_)
HashG(g) == LET f == Flatten(g) IN IF Len(f) = 0 THEN 1 ELSE (f[1][1] * 7 + f[Len(f)][2] * 3 + Len(f)) % 101
Shifted == {[kind |-> "sim", g |-> p[1], h |-> p[2], tol |-> Tol, sh |-> k] : p \in {q \in Pairs : (HashG(q[1]) + 3 * HashG(q[2])) % 7 = 0}, k \in {-600, 600}}
GenInit == pr = <<>> /\ c \in {[kind |-> "sim", g |-> p[1], h |-> p[2], tol |-> Tol] : p \in Pairs} \cup Shifted /\ PrintT(ToJson(c))
GenSpec == GenInit /\ [][UNCHANGED <<pr, c>>]_<<pr, c>>
=============================================================================

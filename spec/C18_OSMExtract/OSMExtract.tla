----------------------------- MODULE OSMExtract -----------------------------
(* C18 - encoding/osm: extraction is the least referentially closed set,    *)
(* whatever the goroutine schedule.                                         *)
(*                                                                          *)
(* R1 (oracle): Least(doc) - the least set K of objects with                *)
(*      Sel(K) \cup Refs(K) \subseteq K, where Sel is what the keep         *)
(*      function selects (for KeepBounds it depends, monotonically, on K).  *)
(* R2 (model): extract() as the code runs it - repeated passes over the     *)
(*      file, at most W objects in flight, and per object a program counter *)
(*      over the lock-delimited steps of processNode/Way/Relation:          *)
(*        Self      hasNeedX(self)                       (one RLock section)*)
(*        KeepStep  KeepBounds: hasNeedX(member)          (one RLock section)*)
(*        Store     kept map write                        (one Lock section) *)
(*        Dep       hasNeedX(member)                      (one RLock section)*)
(*        DepW      dependent map write                   (one Lock section) *)
(*        Fin       needAnotherPass under passMX, worker takes next object   *)
(*      PassEnd     eg.Wait(); loop while needAnotherPass.                   *)
(*      The model keeps the code's quirk that a member which is already     *)
(*      *kept* reports need = FALSE and is registered again.                *)
EXTENDS Integers, Sequences, FiniteSets, TLC

CONSTANTS W,        \* number of workers (GOMAXPROCS)
          KEEP,     \* "tags" | "bounds" | "all"
          Docs      \* set of documents explored

(* a document: [order |-> file order (sequence of objects), mem |-> <<object, members>> pairs,     *)
(*              inb |-> nodes inside the bounds, tag |-> objects carrying the wanted tag]        *)
Objs(d) == {d.order[i] : i \in 1..Len(d.order)}
(* mem is a sequence of <<object, member sequence>> pairs (JSON-friendly) *)
Mem(d, o) == LET I == {i \in 1..Len(d.mem) : d.mem[i][1] = o}
             IN IF I = {} THEN <<>> ELSE d.mem[CHOOSE i \in I : TRUE][2]
MemSet(d, o) == {Mem(d, o)[i] : i \in 1..Len(Mem(d, o))}

(* ------------------------------------------------------------------ R1 *)
SelK(keep, d, K) == CASE keep = "all" -> Objs(d)
                      [] keep = "tags" -> d.tag \cap Objs(d)
                      [] keep = "bounds" -> (d.inb \cap Objs(d))
                                            \cup {o \in Objs(d) : o[1] # "n" /\ MemSet(d, o) \cap K # {}}
Refs(d, K) == UNION {MemSet(d, o) : o \in K} \cap Objs(d)
RECURSIVE Lfp(_, _, _)
Lfp(keep, d, K) == LET K2 == K \cup SelK(keep, d, K) \cup Refs(d, K)
                   IN IF K2 = K THEN K ELSE Lfp(keep, d, K2)
LeastK(keep, d) == Lfp(keep, d, {})
NoDangling(d) == \A o \in Objs(d) : MemSet(d, o) \subseteq Objs(d)
Closed(d, K) == \A o \in K : MemSet(d, o) \subseteq K          \* what (*Data).Check verifies

(* ------------------------------------------------------------------ R2 *)
VARIABLES doc, kept, need, nextIdx, slot, needAnother, done, pass
vars == <<doc, kept, need, nextIdx, slot, needAnother, done, pass>>

Idle == [obj |-> <<"none", 0>>, pc |-> "idle", idx |-> 0, nd |-> FALSE, another |-> FALSE]

Init == /\ doc \in Docs /\ kept = {} /\ need = {} /\ nextIdx = 1
        /\ slot = [s \in 1..W |-> Idle] /\ needAnother = FALSE /\ done = FALSE /\ pass = 1

(* an idle worker receives the next object of the file from the channel *)
Take(s) == /\ ~done /\ slot[s].pc = "idle" /\ nextIdx <= Len(doc.order)
           /\ slot' = [slot EXCEPT ![s] = [Idle EXCEPT !.obj = doc.order[nextIdx], !.pc = "self"]]
           /\ nextIdx' = nextIdx + 1
           /\ UNCHANGED <<doc, kept, need, needAnother, done, pass>>

KeepLocal(o) == CASE KEEP = "all" -> TRUE
                  [] KEEP = "tags" -> o \in doc.tag
                  [] KEEP = "bounds" -> o \in doc.inb

(* hasNeedX as one atomic read *)
Has(o) == o \in kept
Need(o) == o \notin kept /\ o \in need

Self(s) == LET c == slot[s]
               o == c.obj
           IN /\ c.pc = "self"
              /\ IF Has(o) THEN slot' = [slot EXCEPT ![s].pc = "fin"]
                 ELSE IF KEEP = "bounds" /\ o[1] # "n" /\ Len(Mem(doc, o)) > 0
                      THEN slot' = [slot EXCEPT ![s].pc = "keep", ![s].idx = 1, ![s].nd = Need(o)]
                      ELSE slot' = [slot EXCEPT ![s].pc = IF KeepLocal(o) \/ Need(o) THEN "store" ELSE "fin"]
              /\ UNCHANGED <<doc, kept, need, nextIdx, needAnother, done, pass>>

KeepStep(s) == LET c == slot[s]
                   o == c.obj
                   m == Mem(doc, o)[c.idx]
               IN /\ c.pc = "keep"
                  /\ IF Has(m) THEN slot' = [slot EXCEPT ![s].pc = "store"]
                     ELSE IF c.idx = Len(Mem(doc, o))
                          THEN slot' = [slot EXCEPT ![s].pc = IF c.nd THEN "store" ELSE "fin"]
                          ELSE slot' = [slot EXCEPT ![s].idx = c.idx + 1]
                  /\ UNCHANGED <<doc, kept, need, nextIdx, needAnother, done, pass>>

(* storing an object requests another pass: the selection may depend on the kept set *)
Store(s) == LET c == slot[s]
                o == c.obj
            IN /\ c.pc = "store" /\ kept' = kept \cup {o}
               /\ slot' = [slot EXCEPT ![s].pc = IF Len(Mem(doc, o)) = 0 THEN "fin" ELSE "dep",
                                       ![s].idx = 1, ![s].another = TRUE]
               /\ UNCHANGED <<doc, need, nextIdx, needAnother, done, pass>>

Adv(c, o) == IF c.idx = Len(Mem(doc, o)) THEN "fin" ELSE "dep"

Dep(s) == LET c == slot[s]
              o == c.obj
              m == Mem(doc, o)[c.idx]
          IN /\ c.pc = "dep"
             /\ IF Need(m) THEN slot' = [slot EXCEPT ![s].pc = Adv(c, o), ![s].idx = c.idx + 1]
                ELSE slot' = [slot EXCEPT ![s].pc = "depw"]
             /\ UNCHANGED <<doc, kept, need, nextIdx, needAnother, done, pass>>

DepW(s) == LET c == slot[s]
               o == c.obj
               m == Mem(doc, o)[c.idx]
           IN /\ c.pc = "depw" /\ need' = need \cup {m}
              /\ slot' = [slot EXCEPT ![s].pc = Adv(c, o), ![s].idx = c.idx + 1, ![s].another = TRUE]
              /\ UNCHANGED <<doc, kept, nextIdx, needAnother, done, pass>>

Fin(s) == /\ slot[s].pc = "fin" /\ needAnother' = (needAnother \/ slot[s].another)
          /\ slot' = [slot EXCEPT ![s] = Idle]
          /\ UNCHANGED <<doc, kept, need, nextIdx, done, pass>>

PassEnd == /\ ~done /\ nextIdx > Len(doc.order) /\ \A s \in 1..W : slot[s].pc = "idle"
           /\ IF needAnother
              THEN needAnother' = FALSE /\ nextIdx' = 1 /\ pass' = pass + 1 /\ done' = FALSE
              ELSE done' = TRUE /\ UNCHANGED <<needAnother, nextIdx, pass>>
           /\ UNCHANGED <<doc, kept, need, slot>>

Step(s) == Take(s) \/ Self(s) \/ KeepStep(s) \/ Store(s) \/ Dep(s) \/ DepW(s) \/ Fin(s)
Next == (\E s \in 1..W : Step(s)) \/ PassEnd
Spec == Init /\ [][Next]_vars /\ WF_vars(Next)

(* ------------------------------------------------------------------ properties *)
ResultOK == done => kept = LeastK(KEEP, doc)             \* exactly the least closed set, on every schedule
Sound == kept \subseteq LeastK(KEEP, doc)                \* never more than the closure, at any time
CheckOK == done /\ NoDangling(doc) => Closed(doc, kept)  \* the result passes Check
NeedSound == need \subseteq UNION {MemSet(doc, o) : o \in kept}
Terminates == <>done
=============================================================================

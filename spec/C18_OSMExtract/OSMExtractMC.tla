---------------------------- MODULE OSMExtractMC ----------------------------
(* Document universes for the exhaustive runs of OSMExtract. *)
EXTENDS OSMExtract

N(i) == <<"n", i>>
Wy(i) == <<"w", i>>
R(i) == <<"r", i>>
D(order, mem, inb, tag) == [order |-> order, mem |-> mem, inb |-> inb, tag |-> tag]
NoMem == <<>>

(* hand-picked shapes: shared node, way straddling the bounds, relation of a relation, a 2-cycle of
   relations, a relation naming itself, a way before its nodes, a dangling reference *)
Curated == {
  D(<<N(1), N(2), Wy(1)>>, << <<Wy(1), <<N(1), N(2)>>>> >>, {N(1)}, {Wy(1)}),
  D(<<N(1), N(2), Wy(1), Wy(2)>>, << <<Wy(1), <<N(1), N(2)>>>>, <<Wy(2), <<N(2)>>>> >>, {N(1)}, {Wy(2)}),
  D(<<N(1), N(2), Wy(1), R(1)>>, << <<Wy(1), <<N(1), N(2)>>>>, <<R(1), <<Wy(1), N(2)>>>> >>, {N(2)}, {R(1)}),
  D(<<N(1), R(1), R(2)>>, << <<R(1), <<R(2)>>>>, <<R(2), <<R(1), N(1)>>>> >>, {N(1)}, {R(1)}),
  D(<<Wy(1), N(1), N(2)>>, << <<Wy(1), <<N(2), N(1)>>>> >>, {N(1)}, {Wy(1)}),
  D(<<R(1), Wy(1), N(1)>>, << <<Wy(1), <<N(1)>>>>, <<R(1), <<Wy(1), R(1)>>>> >>, {N(1)}, {R(1)}),
  D(<<N(1), Wy(1), R(1)>>, << <<Wy(1), <<N(1), N(9)>>>>, <<R(1), <<Wy(1)>>>> >>, {N(1)}, {R(1)}),
  D(<<N(1), N(2), N(3), Wy(1), Wy(2), R(1)>>,
    << <<Wy(1), <<N(1), N(2)>>>>, <<Wy(2), <<N(2), N(3)>>>>, <<R(1), <<Wy(2)>>>> >>, {N(1)}, {N(3)}),
  D(<<N(1), N(2)>>, NoMem, {N(2)}, {N(1)}),
  D(<<>>, NoMem, {}, {}),
  (* a node that is missing from the file (clipped extract) is referenced by a kept way and by a way nothing else selects:
     being *needed* is not being *kept* *)
  D(<<N(1), N(2), Wy(1), Wy(2)>>, << <<Wy(1), <<N(1), N(9)>>>>, <<Wy(2), <<N(9), N(2)>>>> >>, {N(1)}, {Wy(1)}),
  D(<<N(1), N(2), Wy(2), Wy(1)>>, << <<Wy(1), <<N(1), N(9)>>>>, <<Wy(2), <<N(2), N(9)>>>> >>, {N(1)}, {Wy(1)}),
  D(<<N(1), Wy(1), R(1), R(2)>>, << <<Wy(1), <<N(1)>>>>, <<R(1), <<Wy(1), Wy(9)>>>>, <<R(2), <<Wy(9)>>>> >>, {N(1)}, {R(1)}),
  (* a relation without members is pulled in by a selected relation that comes later in the file; a relation before it
     becomes selected (bounds) only once the empty one is kept *)
  D(<<N(1), R(3), R(2), R(1)>>, << <<R(1), <<N(1), R(2)>>>>, <<R(2), <<>>>>, <<R(3), <<R(2)>>>> >>, {N(1)}, {R(1)}),
  D(<<N(1), R(2), R(3), R(1)>>, << <<R(1), <<N(1), R(2)>>>>, <<R(2), <<>>>>, <<R(3), <<R(2)>>>> >>, {N(1)}, {R(1)}),
  (* a way without node references: selected by its tag, and pulled in as a member of a selected relation *)
  D(<<N(1), Wy(1)>>, << <<Wy(1), <<>>>> >>, {N(1)}, {Wy(1)}),
  D(<<N(1), Wy(1), R(1)>>, << <<Wy(1), <<>>>>, <<R(1), <<Wy(1), N(1)>>>> >>, {N(1)}, {R(1)}),
  D(<<R(1), N(1), Wy(1)>>, << <<Wy(1), <<>>>>, <<R(1), <<N(1), Wy(1)>>>> >>, {}, {R(1)})
}

(* enumerated family: nodes n1 n2, way w1 with 1-2 node members, relation r1 with 1-2 members out of
   {n1, n2, w1, r1}; three file orders; every in-bounds subset; a few tag sets *)
Seqs12(S) == {<<a>> : a \in S} \cup {<<a, b>> : a \in S, b \in S}
Orders == { <<N(1), N(2), Wy(1), R(1)>>, <<R(1), Wy(1), N(2), N(1)>>, <<N(1), Wy(1), N(2), R(1)>> }
Family(WM, RM, INB, TAG) ==
  { D(o, << <<Wy(1), wm>>, <<R(1), rm>> >>, inb, tag) :
      o \in Orders, wm \in WM, rm \in RM, inb \in INB, tag \in TAG }
FamSmall == Family({<<N(1), N(2)>>, <<N(2)>>}, {<<Wy(1)>>, <<N(1), R(1)>>, <<N(2)>>},
                   {{N(1)}, {N(2)}}, {{Wy(1)}, {R(1)}})
FamFull == Family(Seqs12({N(1), N(2)}), Seqs12({N(1), N(2), Wy(1), R(1)}),
                  SUBSET {N(1), N(2)}, {{Wy(1)}, {R(1)}, {N(2)}, {}})

CuratedSmall == { D(<<N(1), N(2), Wy(1)>>, << <<Wy(1), <<N(1), N(2)>>>> >>, {N(1)}, {Wy(1)}),
                  D(<<N(1), N(2), Wy(1), R(1)>>, << <<Wy(1), <<N(1), N(2)>>>>, <<R(1), <<Wy(1), N(2)>>>> >>, {N(2)}, {R(1)}),
                  D(<<N(1), R(1), R(2)>>, << <<R(1), <<R(2)>>>>, <<R(2), <<R(1), N(1)>>>> >>, {N(1)}, {R(1)}) }
(* "transitively" means to any depth: a chain of relations, each naming the one before it in the file, selected from its far
   end - every level costs the extractor one more pass over the file.  Only replayed (one worker), not model-checked. *)
DeepChain(n) == D(<<N(1), Wy(1)>> \o [i \in 1..n |-> R(i)],
                  << <<Wy(1), <<N(1)>>>>, <<R(1), <<Wy(1), N(1)>>>> >> \o [i \in 1..(n - 1) |-> <<R(i + 1), <<R(i)>>>>],
                  {N(1)}, {R(n)})
DeepQuick == {DeepChain(40)}
DeepThorough == {DeepChain(40), DeepChain(70)}
DocsQuick == Curated \cup FamSmall
DocsThorough == Curated \cup FamFull
=============================================================================

--------------------------- MODULE OSMExtractTrace ---------------------------
(* Trace specification for C18.  One recording = one extraction of one      *)
(* document on the real code:                                               *)
(*   reset  {doc, keep, w, mode}                                            *)
(*   step   {o, a, has, need, m, again}   one lock-delimited step (gated    *)
(*          replays only) - validated as an action of the R2 model; a step  *)
(*          R2 cannot take is *drift* (counted, never a verdict)            *)
(*   result {nodes, ways, rels, err, check}  - the verdict: the returned    *)
(*          set must equal Least(doc) (R1) on every schedule, and Check     *)
(*          must pass exactly when the result is closed                     *)
(*   filter {keep, nodes, ways, rels, again_same}  Filter on the result     *)
EXTENDS OSMExtract, TraceIO

VARIABLES lost,     \* the recording left the R2 model (steps are no longer followed)
          drift,    \* recordings in which that happened
          res       \* the result set of the current recording (for filter events), or {}

Range(s) == {s[i] : i \in 1..Len(s)}
DocOf(e) == [order |-> e.doc.order, mem |-> e.doc.mem, inb |-> Range(e.doc.inb), tag |-> Range(e.doc.tag)]
SetOf(e) == {<<"n", e.nodes[i]>> : i \in 1..Len(e.nodes)} \cup {<<"w", e.ways[i]>> : i \in 1..Len(e.ways)}
            \cup {<<"r", e.rels[i]>> : i \in 1..Len(e.rels)}
SlotOf(o) == IF \E s \in 1..W : slot[s].obj = o THEN CHOOSE s \in 1..W : slot[s].obj = o ELSE 0
FreeSlot == IF \E s \in 1..W : slot[s].pc = "idle" THEN CHOOSE s \in 1..W : slot[s].pc = "idle" /\ \A t \in 1..(s - 1) : slot[t].pc # "idle" ELSE 0
CurMem(s) == Mem(doc, slot[s].obj)[slot[s].idx]

(* is the logged step an enabled R2 action whose reads agree with the logged values? *)
StepOk(e) ==
    LET s == SlotOf(e.o) IN
    CASE e.a = "Take" -> ~done /\ nextIdx <= Len(doc.order) /\ doc.order[nextIdx] = e.o /\ FreeSlot # 0
      [] e.a = "PassEnd" -> ~done /\ nextIdx > Len(doc.order) /\ (\A t \in 1..W : slot[t].pc = "idle") /\ e.again = needAnother
      [] e.a = "Self" -> s # 0 /\ slot[s].pc = "self" /\ e.has = Has(e.o) /\ e.need = Need(e.o)
      [] e.a = "KeepStep" -> s # 0 /\ slot[s].pc = "keep" /\ e.m = CurMem(s) /\ e.has = Has(e.m)
      [] e.a = "Store" -> s # 0 /\ slot[s].pc = "store"
      [] e.a = "Dep" -> s # 0 /\ slot[s].pc = "dep" /\ e.m = CurMem(s) /\ e.need = Need(e.m)
      [] e.a = "DepW" -> s # 0 /\ slot[s].pc = "depw" /\ e.m = CurMem(s)
      [] e.a = "Fin" -> s # 0 /\ slot[s].pc = "fin"
      [] OTHER -> FALSE

StepDo(e) ==
    LET s == SlotOf(e.o) IN
    CASE e.a = "Take" -> Take(FreeSlot)
      [] e.a = "PassEnd" -> PassEnd
      [] e.a = "Self" -> Self(s)
      [] e.a = "KeepStep" -> KeepStep(s)
      [] e.a = "Store" -> Store(s)
      [] e.a = "Dep" -> Dep(s)
      [] e.a = "DepW" -> DepW(s)
      [] e.a = "Fin" -> Fin(s)

(* ------------------------------------------------------------------ R1 verdicts *)
ResultSpecOK(e) ==
    LET K == SetOf(e) IN
    /\ e.err = ""
    /\ K = LeastK(e.keep, doc)
    /\ (e.check = "ok") = Closed(doc, K)
    /\ (NoDangling(doc) => e.check = "ok")

(* Filter on the extracted data x: the least closed selection *within* x *)
Restrict(d, K) == [d EXCEPT !.order = SelectSeq(d.order, LAMBDA o : o \in K)]
FilterSpecOK(e) ==
    LET F == SetOf(e)
        x == Restrict(doc, res)
    IN /\ F = LeastK(e.keep, x)
       /\ F \subseteq res
       /\ \A o \in F : MemSet(doc, o) \cap res \subseteq F         \* closed under references inside x
       /\ e.again_same                                            \* Filter(Filter(x)) = Filter(x)

Ok(e) == CASE e.ev = "step" -> TRUE
           [] e.ev = "result" -> ResultSpecOK(e)
           [] e.ev = "filter" -> FilterSpecOK(e)
           [] OTHER -> FALSE

Apply(e) ==
    IF e.ev = "step"
    THEN IF lost THEN UNCHANGED <<vars, lost, drift, res>>
         ELSE IF StepOk(e) THEN StepDo(e) /\ UNCHANGED <<lost, drift, res>>
         ELSE lost' = TRUE /\ drift' = drift + 1 /\ UNCHANGED <<vars, res>>
    ELSE IF e.ev = "result"
         THEN /\ res' = SetOf(e)
              /\ drift' = IF ~lost /\ e.mode = "gated" /\ ~(done /\ kept = SetOf(e)) THEN drift + 1 ELSE drift
              /\ UNCHANGED <<vars, lost>>
         ELSE UNCHANGED <<vars, lost, drift, res>>

Reset(e) == /\ doc' = DocOf(e) /\ kept' = {} /\ need' = {} /\ nextIdx' = 1
            /\ slot' = [s \in 1..W |-> Idle] /\ needAnother' = FALSE /\ done' = FALSE /\ pass' = 1
            /\ lost' = (e.mode # "gated") /\ res' = {} /\ UNCHANGED drift
Keep == UNCHANGED <<vars, lost, drift, res>>

TraceInit == /\ TInit /\ lost = TRUE /\ drift = 0 /\ res = {}
             /\ doc = [order |-> <<>>, mem |-> <<>>, inb |-> {}, tag |-> {}] /\ kept = {} /\ need = {} /\ nextIdx = 1
             /\ slot = [s \in 1..W |-> Idle] /\ needAnother = FALSE /\ done = FALSE /\ pass = 1
TraceNext == TStep(Ok, Apply, Reset, Keep)
TraceSpec == TraceInit /\ [][TraceNext]_<<l, fails, vars, lost, drift, res>>
Report == TReport /\ (l > Len(Trace) => PrintT(<<"DRIFT", drift>>))
=============================================================================

---------------------------- MODULE OSMExtractGen ----------------------------
(* Schedule generator for C18: the design spec plus a history variable.     *)
(* Two uses: breadth-first search with VIEW GenView prints, for every       *)
(* distinct state, the schedule prefix that reached it (the harness drives  *)
(* the real workers through the prefix and lets them run freely after it);  *)
(* -simulate prints complete schedules (history printed when done).         *)
EXTENDS OSMExtractMC, Json

CONSTANT EmitDoneOnly
VARIABLE h
GenInit == Init /\ h = <<>>
Rec(o, a) == h' = Append(h, [o |-> o, a |-> a])
GenStep(s) == \/ Take(s) /\ Rec(doc.order[nextIdx], "Take")
              \/ Self(s) /\ Rec(slot[s].obj, "Self")
              \/ KeepStep(s) /\ Rec(slot[s].obj, "KeepStep")
              \/ Store(s) /\ Rec(slot[s].obj, "Store")
              \/ Dep(s) /\ Rec(slot[s].obj, "Dep")
              \/ DepW(s) /\ Rec(slot[s].obj, "DepW")
              \/ Fin(s) /\ Rec(slot[s].obj, "Fin")
GenNext == (\E s \in 1..W : GenStep(s)) \/ (PassEnd /\ Rec(<<"p", 0>>, "PassEnd"))
GenSpec == GenInit /\ [][GenNext]_<<vars, h>>
GenView == vars

DocJson == [order |-> doc.order, mem |-> doc.mem, inb |-> doc.inb, tag |-> doc.tag]
Emit == (Len(h) > 0 /\ (~EmitDoneOnly \/ done)) =>
          PrintT(ToJson([w |-> W, keep |-> KEEP, doc |-> DocJson, sched |-> h, complete |-> done]))
=============================================================================

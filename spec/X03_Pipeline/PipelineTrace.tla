----------------------------- MODULE PipelineTrace -----------------------------
(* Trace spec for X03.  A recording is one configuration and one event: for each sample position the sign and the
   binary exponent by which the real output of the variant pair of references (given the position as the variant source
   writes it) differs from the real output of the plain pair (given the canonical position).  The model's end value is
   the only accepted answer. *)
EXTENDS PipelineDefs, TraceIO
VARIABLE cs
PipeOk(e) == LET f == Final(cs.cfg) IN
             /\ e.ev = "pipe" /\ e.out = "ok" /\ e.err = ""
             /\ Len(e.rel) >= 3
             /\ \A i \in 1..Len(e.rel) : e.rel[i] = <<f.sx, f.sy, f.k>>
Ok(e) == cs.kind = "pipe" /\ PipeOk(e)
Apply(e) == UNCHANGED cs
Reset(e) == cs' = e
Keep == UNCHANGED cs
TraceInit == TInit /\ cs = [kind |-> "none"]
TraceNext == TStep(Ok, Apply, Reset, Keep)
TraceSpec == TraceInit /\ [][TraceNext]_<<l, fails, cs>>
=============================================================================

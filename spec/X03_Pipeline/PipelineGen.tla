------------------------------ MODULE PipelineGen ------------------------------
(* Case generator for X03: every configuration of the model (thinned in the quick tier), with nothing predicted in the
   case itself - the expectation is recomputed from Pipeline by the trace specification. *)
EXTENDS PipelineDefs, Json
CONSTANT Thorough
VARIABLE c
GAxes == IF Thorough THEN AllAxes ELSE {"enu", "wsu", "nwu", "neu", "wdn"}
GExps == IF Thorough THEN AllExps ELSE {0, 1, -1}
GCfgs == [sk : Kinds, dk : Kinds, sa : GAxes, da : GAxes, se : GExps, de : GExps]
GenInit == c \in {[kind |-> "pipe", cfg |-> x] : x \in GCfgs} /\ PrintT(ToJson(c))
GenSpec == GenInit /\ [][UNCHANGED c]_c
=============================================================================

SPECIFICATION Spec
CONSTANTS
  Axes <- MCAxes
  Exps <- MCExps
INVARIANTS KernelCanonical OutputMeaning TypeOK
CHECK_DEADLOCK FALSE

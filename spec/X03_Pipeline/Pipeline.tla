------------------------------- MODULE Pipeline -------------------------------
(* X03: the state machine over the stage functions of PipelineDefs (see there); one step per stage of the closure. *)
EXTENDS PipelineDefs
VARIABLES cfg, pc, val
vars == <<cfg, pc, val>>
CONSTANTS Axes, Exps
Cfgs == [sk : Kinds, dk : Kinds, sa : Axes, da : Axes, se : Exps, de : Exps]
Init == /\ cfg \in Cfgs
        /\ pc = "srcAxis"
        /\ val = Written(cfg.sk, cfg.sa, cfg.se)
Step == /\ pc # "done"
        /\ val' = StageFn(pc, cfg, val)
        /\ pc' = StageAfter(pc)
        /\ UNCHANGED cfg
Spec == Init /\ [][Step]_vars

KernelCanonical == pc \in {"inverse", "datum", "forward", "dstUnits"} => val = Canonical
OutputMeaning == pc = "done" => val = Final(cfg)
TypeOK == val.sx \in {-1, 1} /\ val.sy \in {-1, 1} /\ val.k \in -6..6
=============================================================================

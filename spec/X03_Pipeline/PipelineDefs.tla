------------------------------- MODULE PipelineDefs -----------------------------
(* X03 (extension family) - the stages of the closure returned by SR.NewTransform (package proj), as the code runs them:                *)
(*                                                                                                                *)
(*    srcAxis -> srcUnits -> inverse -> datum -> forward -> dstUnits -> dstAxis                                   *)
(*                                                                                                                *)
(* A coordinate pair is tracked symbolically, relative to the canonical reading of the same position (east and   *)
(* north positive, metres - or degrees for a geographic reference):  val = [sx, sy, k]  means                     *)
(*    x = sx * X * 2^k,  y = sy * Y * 2^k    for the canonical (X, Y).                                            *)
(* The options that the outer stages undo are +axis (sign per coordinate; the code never exchanges the two        *)
(* coordinates: "neu" is a no-op - a deliberate departure from PROJ.4, modelled as the code has it) and           *)
(* +to_meter (a power of two here, so that scaling is exact in binary floating point).  A geographic reference    *)
(* ignores +to_meter (degrees are converted to radians instead).                                                  *)
(*                                                                                                                *)
(* Checked by TLC over every combination of the options (PipelineMC):                                             *)
(*   KernelCanonical   the projection kernels and the datum shift only ever see canonical coordinates;            *)
(*   OutputMeaning     the result is the canonical result written in the destination's own convention - it does   *)
(*                     not depend on how the source happened to write its coordinates.                            *)
(* The real code is bound to it by PipelineTrace: the relation of the real output for a variant pair of            *)
(* references to the real output for the plain pair must be the sign / scale the model ends with.                  *)
EXTENDS Integers, Sequences, TLC

Kinds == {"ll", "merc", "utm", "lcc"}
(* sign of the first and the second coordinate under an +axis value (w and s negate, whatever their position) *)
AxisSign == [enu |-> <<1, 1>>, wnu |-> <<-1, 1>>, esu |-> <<1, -1>>, wsu |-> <<-1, -1>>, neu |-> <<1, 1>>, swu |-> <<-1, -1>>, nwu |-> <<1, -1>>,
             une |-> <<1, 1>>, wdn |-> <<-1, 1>>, dse |-> <<1, -1>>]        \* (a height letter in the first or second place leaves that coordinate alone)
AllAxes == DOMAIN AxisSign
AllExps == {-1, 0, 1, 3}                      \* +to_meter = 2^e

Stages == <<"srcAxis", "srcUnits", "inverse", "datum", "forward", "dstUnits", "dstAxis", "done">>
StageAfter(s) == LET i == CHOOSE j \in 1..Len(Stages) : Stages[j] = s IN Stages[i + 1]

Canonical == [sx |-> 1, sy |-> 1, k |-> 0]
Flip(v, ax) == [v EXCEPT !.sx = v.sx * AxisSign[ax][1], !.sy = v.sy * AxisSign[ax][2]]
Scale(v, e) == [v EXCEPT !.k = v.k + e]
(* how a reference of kind kd with the given options writes the canonical coordinates *)
Written(kd, ax, e) == Flip(Scale(Canonical, IF kd = "ll" THEN 0 ELSE -e), ax)

(* one stage of the closure applied to a symbolic value *)
StageFn(s, cfg, v) ==
    CASE s = "srcAxis"  -> IF cfg.sa = "enu" THEN v ELSE Flip(v, cfg.sa)
      [] s = "srcUnits" -> IF cfg.sk = "ll" THEN v ELSE Scale(v, cfg.se)
      [] s = "dstUnits" -> IF cfg.dk = "ll" THEN v ELSE Scale(v, -cfg.de)
      [] s = "dstAxis"  -> IF cfg.da = "enu" THEN v ELSE Flip(v, cfg.da)
      [] OTHER -> v                             \* inverse, datum, forward: canonical in, canonical out
Final(cfg) == Written(cfg.dk, cfg.da, cfg.de)
=============================================================================

--------------------------------- MODULE CRSText ---------------------------------
(* C20 - a CRS means the same whether written as PROJ.4 or as OGC WKT.             *)
(* An abstract CRS is [proj, unit, tw, style, ord, upos]: projection, linear unit    *)
(* ("m" | "ft" | "us-ft"), number of TOWGS84 terms (0 | 3 | 7), parameter naming      *)
(* style of the WKT ("esri": central_meridian / latitude_of_origin everywhere;       *)
(* "ogc": longitude_of_center / latitude_of_center for the conic equal-area and      *)
(* equidistant projections), the order of the PARAMETER clauses and the position    *)
(* of the linear UNIT clause ("last": after the parameters, as ESRI writes it;       *)
(* "first": directly after the GEOGCS, as GDAL / EPSG write it).                     *)
(* Numbers are *names* here ("LAT1", "X0U", ...): the harness holds a value for      *)
(* each name and projection; the specification fixes which name appears in which     *)
(* clause of which text and in which unit.                                           *)
(* R1: P4(crs), the PROJ.4 key/value list, and WKT(crs), the OGC section tree.       *)
(* R2: symbolic models of the two parsers (projString and the recursive section      *)
(*     walk of wkt.go with its path tests, its discarded errors and its              *)
(*     post-processing) that yield SR field terms; TLC checks that for every         *)
(*     abstract CRS both texts assign the same terms to every field the              *)
(*     transformer uses - the clause mapping is right, including the scaling of the  *)
(*     false origin by the declared linear unit.                                     *)
EXTENDS Integers, Sequences, FiniteSets, TLC

CONSTANTS Styles, Orders, UPos,
          LongCFixup      \* TRUE: wkt() copies LongC to Long0 when no central meridian was given (the repair); FALSE: before it

Projs == {"longlat", "merc", "lcc", "aea", "eqdc", "tmerc"}
Units == {"m", "ft", "us-ft"}
KV(k, v) == [k |-> k, v |-> v]

(* ------------------------------------------------------------------ R1: the two texts *)
AngularKeys(p) == CASE p = "merc" -> <<KV("lon_0", "LON0")>>
                    [] p \in {"lcc", "aea", "eqdc"} -> <<KV("lat_1", "LAT1"), KV("lat_2", "LAT2"), KV("lat_0", "LAT0"), KV("lon_0", "LON0")>>
                    [] p = "tmerc" -> <<KV("lat_0", "LAT0"), KV("lon_0", "LON0")>>
                    [] OTHER -> <<>>
ScaleKeys(p) == IF p \in {"merc", "tmerc"} THEN <<KV("k", "K0")>> ELSE <<>>
P4(c) == <<KV("proj", c.proj)>> \o AngularKeys(c.proj) \o ScaleKeys(c.proj)
         \o (IF c.proj = "longlat" THEN <<>> ELSE <<KV("x_0", "X0M"), KV("y_0", "Y0M")>>)          \* PROJ.4: false origin in metres
         \o <<KV("a", "A"), KV("rf", "RF")>>
         \o (IF c.tw = 0 THEN <<>> ELSE <<KV("towgs84", IF c.tw = 3 THEN "TW3" ELSE "TW7")>>)
         \o (IF c.proj = "longlat" THEN <<>> ELSE <<KV("units", c.unit)>>)
         \o <<KV("no_defs", "")>>

Sec(n, args) == [n |-> n, args |-> args]          \* a WKT section NAME[args]; an argument is a section, a quoted name [q |-> s] or a value name [v |-> s]
Q(s) == [q |-> s]
V(s) == [v |-> s]
WKTProjName(p) == CASE p = "merc" -> "Mercator_1SP" [] p = "lcc" -> "Lambert_Conformal_Conic_2SP" [] p = "aea" -> "Albers_Conic_Equal_Area"
                    [] p = "eqdc" -> "Equidistant_Conic" [] p = "tmerc" -> "Transverse_Mercator"
Param(n, v) == Sec("PARAMETER", <<Q(n), V(v)>>)
CenterStyle(c) == c.style = "ogc" /\ c.proj \in {"aea", "eqdc"}
Params(c) == LET p == c.proj
                 lat0 == Param(IF CenterStyle(c) THEN "latitude_of_center" ELSE "latitude_of_origin", "LAT0")
                 lon0 == Param(IF CenterStyle(c) THEN "longitude_of_center" ELSE "central_meridian", "LON0")
                 fe == Param("false_easting", "X0U")                                               \* WKT: false origin in the declared linear unit
                 fn == Param("false_northing", "Y0U")
             IN CASE p = "merc" -> (IF c.style = "ogc" THEN <<Param("latitude_of_origin", "ZERO")>> ELSE <<>>)      \* GDAL / EPSG spell Mercator_1SP with a (zero) latitude of origin
                                   \o <<lon0, Param("scale_factor", "K0"), fe, fn>>
                  [] p \in {"lcc", "aea", "eqdc"} -> <<Param("standard_parallel_1", "LAT1"), Param("standard_parallel_2", "LAT2"), lat0, lon0, fe, fn>>
                  [] p = "tmerc" -> <<lat0, lon0, Param("scale_factor", "K0"), fe, fn>>
Reorder(s, ord) == CASE ord = 1 -> s
                     [] ord = 2 -> [i \in 1..Len(s) |-> s[Len(s) + 1 - i]]
                     [] ord = 3 -> [i \in 1..Len(s) |-> s[((i + 1) % Len(s)) + 1]]
UnitName(u) == CASE u = "m" -> "Meter" [] u = "ft" -> "Foot" [] u = "us-ft" -> "Foot_US"
UnitFactor(u) == CASE u = "m" -> "UF_M" [] u = "ft" -> "UF_FT" [] u = "us-ft" -> "UF_USFT"
(* the spheroid's name: an unknown one, or one of the names the parser recognises - the figures that follow it are what
   counts either way (a .prj file may carry a well-known name with its own, e.g. rounded, figures) *)
SphName(c) == CASE c.ord = 2 -> "GRS_1980" [] c.ord = 3 -> "WGS_1984" [] OTHER -> "verif_spheroid"
(* the datum's name: an unknown one, or one that begins like a registered name without being it (WGS 72 is not WGS 84): the
   spheroid figures and the TOWGS84 clause of the text are what counts *)
DatumName(c) == IF c.ord = 3 THEN "D_WGS_1972" ELSE "D_verif"
GeogCS(c) == Sec("GEOGCS", <<Q("GCS_verif"),
                 Sec("DATUM", <<Q(DatumName(c)), Sec("SPHEROID", <<Q(SphName(c)), V("A"), V("RF")>>)>>
                              \o (IF c.tw = 0 THEN <<>> ELSE <<Sec("TOWGS84", <<V(IF c.tw = 3 THEN "TW3" ELSE "TW7")>>)>>)),
                 Sec("PRIMEM", <<Q("Greenwich"), V("ZERO")>>),
                 Sec("UNIT", <<Q("Degree"), V("DEG")>>)>>)
WKT(c) == IF c.proj = "longlat" THEN GeogCS(c)
          ELSE LET unit == <<Sec("UNIT", <<Q(UnitName(c.unit)), V(UnitFactor(c.unit))>>)>>
               IN Sec("PROJCS", <<Q("verif_projcs"), GeogCS(c)>>
                                \o (IF c.upos = "first" THEN unit ELSE <<>>)
                                \o <<Sec("PROJECTION", <<Q(WKTProjName(c.proj))>>)>>
                                \o Reorder(Params(c), c.ord)
                                \o (IF c.upos = "last" THEN unit ELSE <<>>))

(* ------------------------------------------------------------------ R2: symbolic parsers *)
(* a field term: [f |-> "deg" | "raw" | "scaled" | "nan", v |-> value name] *)
T(f, v) == [f |-> f, v |-> v]
NaN == T("nan", "")
Fields == {"Lat0", "Lat1", "Lat2", "Long0", "LongC", "X0", "Y0", "K0", "A", "Rf", "TW", "ToMeter"}
Blank == [x \in Fields |-> NaN] @@ [name |-> "", err |-> FALSE]

(* projString: one assignment per key *)
P4Key(sr, kv) ==
    CASE kv.k = "proj" -> [sr EXCEPT !.name = kv.v]
      [] kv.k = "lat_0" -> [sr EXCEPT !.Lat0 = T("deg", kv.v)]
      [] kv.k = "lat_1" -> [sr EXCEPT !.Lat1 = T("deg", kv.v)]
      [] kv.k = "lat_2" -> [sr EXCEPT !.Lat2 = T("deg", kv.v)]
      [] kv.k = "lon_0" -> [sr EXCEPT !.Long0 = T("deg", kv.v)]
      [] kv.k = "k" -> [sr EXCEPT !.K0 = T("raw", kv.v)]
      [] kv.k = "x_0" -> [sr EXCEPT !.X0 = T("raw", kv.v)]
      [] kv.k = "y_0" -> [sr EXCEPT !.Y0 = T("raw", kv.v)]
      [] kv.k = "a" -> [sr EXCEPT !.A = T("raw", kv.v)]
      [] kv.k = "rf" -> [sr EXCEPT !.Rf = T("raw", kv.v)]
      [] kv.k = "towgs84" -> [sr EXCEPT !.TW = T("raw", kv.v)]
      [] kv.k = "units" -> [sr EXCEPT !.ToMeter = T("raw", UnitFactor(kv.v))]
      [] kv.k = "no_defs" -> sr
      [] OTHER -> [sr EXCEPT !.err = TRUE]
RECURSIVE P4Fold(_, _, _)
P4Fold(sr, kvs, i) == IF i > Len(kvs) THEN sr ELSE P4Fold(P4Key(sr, kvs[i]), kvs, i + 1)
P4Assign(kvs) == P4Fold(Blank, kvs, 1)

(* wkt.go: the recursive walk.  path = the section names from the root; the code dispatches on path[1] and, inside
   PROJCS, on path[2]; inside a GEOGCS on the *last* name, except that any path containing DATUM goes to the datum
   handler.  Errors raised inside the GEOGCS of a PROJCS are discarded by the caller but stop that GEOGCS. *)
IsSec(a) == "n" \in DOMAIN a
SubSecs(s) == SelectSeq(s.args, IsSec)
ArgV(s, i) == s.args[i].v
ArgQ(s, i) == s.args[i].q
ParamAssign(sr, s) ==
    LET n == ArgQ(s, 1)
        v == ArgV(s, 2)
    IN CASE n = "standard_parallel_1" -> [sr EXCEPT !.Lat1 = T("deg", v)]
         [] n = "standard_parallel_2" -> [sr EXCEPT !.Lat2 = T("deg", v)]
         [] n = "false_easting" -> [sr EXCEPT !.X0 = T("raw", v)]
         [] n = "false_northing" -> [sr EXCEPT !.Y0 = T("raw", v)]
         [] n \in {"latitude_of_origin", "central_parallel", "latitude_of_center"} -> [sr EXCEPT !.Lat0 = T("deg", v)]
         [] n = "scale_factor" -> [sr EXCEPT !.K0 = T("raw", v)]
         [] n = "longitude_of_center" -> [sr EXCEPT !.LongC = T("deg", v)]
         [] n = "central_meridian" -> [sr EXCEPT !.Long0 = T("deg", v)]
         [] OTHER -> [sr EXCEPT !.err = TRUE]
RECURSIVE DatumWalk(_, _, _)
(* sections below DATUM: SPHEROID, TOWGS84 *)
DatumWalk(sr, secs, i) ==
    IF i > Len(secs) THEN sr
    ELSE LET s == secs[i] IN
         DatumWalk(CASE s.n = "SPHEROID" -> [sr EXCEPT !.A = T("raw", ArgV(s, 2)), !.Rf = T("raw", ArgV(s, 3))]
                     [] s.n = "TOWGS84" -> [sr EXCEPT !.TW = T("raw", ArgV(s, 1))]
                     [] OTHER -> sr, secs, i + 1)
RECURSIVE GeogWalk(_, _, _)
(* the sections of a GEOGCS in order; an unknown section (or UNIT when Name is not longlat) ends the walk with an error *)
GeogWalk(sr, secs, i) ==
    IF i > Len(secs) THEN [sr |-> sr, err |-> FALSE]
    ELSE LET s == secs[i] IN
         CASE s.n = "DATUM" -> GeogWalk(DatumWalk(sr, SubSecs(s), 1), secs, i + 1)
           [] s.n = "PRIMEM" -> GeogWalk(sr, secs, i + 1)
           [] s.n = "UNIT" -> IF sr.name = "longlat" THEN GeogWalk([sr EXCEPT !.ToMeter = T("scaledA", ArgV(s, 2))], secs, i + 1)
                              ELSE [sr |-> sr, err |-> TRUE]
           [] s.n \in {"AUTHORITY", "METADATA"} -> GeogWalk(sr, secs, i + 1)
           [] OTHER -> [sr |-> sr, err |-> TRUE]
RECURSIVE ProjWalk(_, _, _)
ProjWalk(sr, secs, i) ==
    IF i > Len(secs) THEN sr
    ELSE LET s == secs[i] IN
         ProjWalk(CASE s.n = "GEOGCS" -> GeogWalk(sr, SubSecs(s), 1).sr                               \* the error is discarded
                    [] s.n = "PRIMEM" -> sr
                    [] s.n = "PROJECTION" -> [sr EXCEPT !.name = ArgQ(s, 1)]
                    [] s.n = "PARAMETER" -> ParamAssign(sr, s)
                    [] s.n = "UNIT" -> [sr EXCEPT !.ToMeter = T("raw", ArgV(s, 2))]
                    [] s.n \in {"AUTHORITY", "AXIS"} -> sr
                    [] OTHER -> [sr EXCEPT !.err = TRUE], secs, i + 1)
(* post-processing of wkt(): the false origin is scaled by the linear unit; Lat0 defaults to Lat1; Long0 defaults to LongC *)
Scale(t, tm) == IF t.f = "raw" /\ tm.f = "raw" THEN T("scaled", t.v) ELSE t
PostWKT(sr) == LET s1 == [sr EXCEPT !.X0 = Scale(sr.X0, sr.ToMeter), !.Y0 = Scale(sr.Y0, sr.ToMeter)]
                   s2 == IF s1.Lat0 = NaN THEN [s1 EXCEPT !.Lat0 = s1.Lat1] ELSE s1
               IN IF LongCFixup /\ s2.Long0 = NaN /\ s2.LongC # NaN THEN [s2 EXCEPT !.Long0 = s2.LongC] ELSE s2
WKTAssign(tree) ==
    IF tree.n = "GEOGCS" THEN LET r == GeogWalk([Blank EXCEPT !.name = "longlat"], SubSecs(tree), 1) IN PostWKT([r.sr EXCEPT !.err = r.err])
    ELSE PostWKT(ProjWalk(Blank, SubSecs(tree), 1))

(* the two readings denote the same reference: every field the transformer uses carries the same term, where a false
   origin in metres (PROJ.4) is the same as the value in units scaled by the unit factor (WKT) *)
Norm(t) == CASE t = T("raw", "X0M") -> T("scaled", "X0U")
             [] t = T("raw", "Y0M") -> T("scaled", "Y0U")
             [] OTHER -> t
Used(p) == CASE p = "longlat" -> {"A", "Rf", "TW"}
             [] p = "merc" -> {"Long0", "K0", "X0", "Y0", "A", "Rf", "TW", "ToMeter"}
             [] p = "tmerc" -> {"Lat0", "Long0", "K0", "X0", "Y0", "A", "Rf", "TW", "ToMeter"}
             [] OTHER -> {"Lat0", "Lat1", "Lat2", "Long0", "X0", "Y0", "A", "Rf", "TW", "ToMeter"}
FieldsAgree(c) == LET a == P4Assign(P4(c))
                      b == WKTAssign(WKT(c))
                  IN /\ ~a.err /\ ~b.err
                     /\ \A f \in Used(c.proj) : Norm(a[f]) = Norm(b[f])
                     /\ (c.unit = "m" \/ c.proj = "longlat" \/ (b.X0.f = "scaled" /\ b.Y0.f = "scaled"))

Universe == {[proj |-> p, unit |-> u, tw |-> t, style |-> s, ord |-> o, upos |-> up] :
               p \in Projs, u \in Units, t \in {0, 3, 7}, s \in Styles, o \in Orders, up \in UPos}
VARIABLE crs
Init == crs \in {c \in Universe : c.proj # "longlat" \/ (c.unit = "m" /\ c.ord = 1 /\ c.style = "esri" /\ c.upos = "last")}
Spec == Init /\ [][UNCHANGED crs]_crs
ClauseMappingOK == FieldsAgree(crs)
=============================================================================

-------------------------------- MODULE CRSTextGen --------------------------------
EXTENDS CRSText, Json
VARIABLE c
GenInit == /\ crs \in {x \in Universe : x.proj # "longlat" \/ (x.unit = "m" /\ x.ord = 1 /\ x.style = "esri" /\ x.upos = "last")}
           /\ c = [kind |-> "crs", crs |-> crs, p4 |-> P4(crs), wkt |-> WKT(crs), used |-> Used(crs.proj)]
           /\ PrintT(ToJson(c))
GenSpec == GenInit /\ [][UNCHANGED <<crs, c>>]_<<crs, c>>
=============================================================================

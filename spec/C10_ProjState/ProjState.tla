------------------------------ MODULE ProjState ------------------------------
(* C10 (first half) - a proj.Transformer is a function of its arguments.     *)
(*                                                                          *)
(* The heap: spatial references SR objects (a definition plus the flag     *)
(* `lazy` set when Transformers() has written its default parameters into    *)
(* the object, the registry of named references (shared pointers), and      *)
(* transformer closures [s, d, cur] where `cur` is the *captured source      *)
(* variable* of the closure returned by NewTransform.                        *)
(* A point is abstract: <<frame, k>> = position k expressed in the CRS whose *)
(* definition is `frame`.  Each pipeline stage is typed on frames: applying  *)
(* the inverse projection of definition f to a point that is not in frame f  *)
(* yields garbage.                                                           *)
(*                                                                          *)
(* R1: FunctionOK - every Call(t, <<def(src), k>>) returns <<def(dst), k>>,  *)
(*     whatever the history.  NoSharedDamage - the meaning of every SR       *)
(*     object and of every registry name never changes.                      *)
(* R2: NewTransform / the closure as the code runs them: the datum-hop test  *)
(*     on the captured variable, Parse("WGS84"), the inner transformer, the  *)
(*     two Transformers() calls (lazy writes).  Constant MutatesCapture      *)
(*     selects the behaviour of the closure before the repair (the hop       *)
(*     assigns the captured variable: `source = wgs84`) - kept so that TLC   *)
(*     can show the defect at design level.                                  *)
EXTENDS Integers, Sequences, FiniteSets, TLC

CONSTANTS NDefs,            \* definitions 1..NDefs; definition 1 is WGS84 long/lat (registry name)
          Named,            \* set of definitions that are registry names (Parse returns the shared pointer)
          HopDefs,          \* definitions with a 3/7-parameter datum
          WGSCode,          \* definitions whose DatumCode is "WGS84" (no hop is needed towards them)
          NPts,             \* sample positions 1..NPts per frame
          MaxSR, MaxTF, MaxCalls,
          MutatesCapture    \* FALSE: the code as repaired; TRUE: the closure overwrites its captured source

Defs == 1..NDefs
WGS == 1

VARIABLES sr,      \* sequence of [def, lazy]; the first Cardinality(Named) objects are the registry's
          tf,      \* sequence of [s, d, cur]: indices into sr; cur = captured source variable
          ncalls,
          last     \* last observable: [t, k, res] or <<>>
vars == <<sr, tf, ncalls, last>>

RECURSIVE SetToSeqN(_)
SetToSeqN(S) == IF S = {} THEN <<>> ELSE LET x == CHOOSE y \in S : \A z \in S : y <= z IN <<x>> \o SetToSeqN(S \ {x})
NamedSeq == SetToSeqN(Named)
RegIdx(d) == CHOOSE i \in 1..Len(NamedSeq) : NamedSeq[i] = d

Init == /\ sr = [i \in 1..Len(NamedSeq) |-> [def |-> NamedSeq[i], lazy |-> FALSE]]
        /\ tf = <<>> /\ ncalls = 0 /\ last = <<>>

(* proj.Parse: a registry name yields the shared object, text yields a new one *)
Parse(d) == /\ d \notin Named /\ Len(sr) < MaxSR
            /\ sr' = Append(sr, [def |-> d, lazy |-> FALSE])
            /\ UNCHANGED <<tf, ncalls, last>>

(* SR.NewTransform: nil for Equal references, else a closure capturing source and dest *)
NewT(i, j) == /\ Len(tf) < MaxTF /\ sr[i].def # sr[j].def
              /\ tf' = Append(tf, [s |-> i, d |-> j, cur |-> i])
              /\ UNCHANGED <<sr, ncalls, last>>

Hop(a, b) == sr[a].def \in HopDefs /\ sr[b].def \notin WGSCode      \* checkNotWGS(a, b)

(* one call of the closure on <<def(s), k>> *)
Call(t, k) ==
    LET c == tf[t]
        hop == Hop(c.cur, c.d) \/ Hop(c.d, c.cur)
        wgsIdx == RegIdx(WGS)
        (* frame of the point after the optional first leg, and the source used for the second leg *)
        leg1ok == sr[c.cur].def = sr[c.s].def                       \* the inner transformer inverts the right frame
        src2 == IF hop THEN wgsIdx ELSE c.cur
        frame2 == IF hop THEN (IF leg1ok THEN WGS ELSE 0) ELSE sr[c.s].def      \* 0 = garbage
        ok == frame2 = sr[src2].def
        res == IF ok THEN <<sr[c.d].def, k>> ELSE <<0, 0>>
        touched == {c.cur, c.d} \cup (IF hop THEN {wgsIdx} ELSE {})
    IN /\ ncalls < MaxCalls
       /\ sr' = [i \in DOMAIN sr |-> IF i \in touched THEN [sr[i] EXCEPT !.lazy = TRUE] ELSE sr[i]]
       /\ tf' = IF MutatesCapture /\ hop THEN [tf EXCEPT ![t].cur = wgsIdx] ELSE tf
       /\ ncalls' = ncalls + 1
       /\ last' = [t |-> t, k |-> k, res |-> res]

Next == \/ \E d \in Defs : Parse(d)
        \/ \E i \in DOMAIN sr, j \in DOMAIN sr : NewT(i, j)
        \/ \E t \in DOMAIN tf, k \in 1..NPts : Call(t, k)
Spec == Init /\ [][Next]_vars

FunctionOK == last # <<>> => last.res = <<sr[tf[last.t].d].def, last.k>>
CaptureStable == \A t \in DOMAIN tf : tf[t].cur = tf[t].s
(* the registry objects keep their definitions; lazy writes are the only heap writes *)
NoSharedDamage == \A i \in 1..Len(NamedSeq) : sr[i].def = NamedSeq[i]
=============================================================================

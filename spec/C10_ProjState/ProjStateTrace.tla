---------------------------- MODULE ProjStateTrace ----------------------------
(* Trace specification for C10.                                             *)
(* kind "hist": one history of Parse / NewTransform / Call on the real proj *)
(*   package.  The reset line carries, for every ordered pair of definitions *)
(*   and every sample position, the answer of a brand-new transformer built  *)
(*   from brand-new references (`fresh`).  R1: every call returns exactly    *)
(*   that answer (results are interned strings: bit patterns or the error).  *)
(*   The model variables follow the history so that the trace spec knows     *)
(*   which definitions a transformer was built from.                         *)
(* kind "transform": one Geom.Transform call with the counting fake          *)
(*   transformer; R1 = Transform!TransformSpec.                              *)
EXTENDS ProjState, TraceIO
TR == INSTANCE Transform WITH L2 <- 0, L3o <- 0, L3i <- 0, LG <- 0, g <- 0, st <- 0, n <- 0, out <- 0, oob <- FALSE

VARIABLE cs
Fresh(e, sd, dd, k) == LET I == {i \in 1..Len(cs.fresh) : cs.fresh[i][1] = sd /\ cs.fresh[i][2] = dd}
                       IN IF I = {} THEN "none" ELSE cs.fresh[CHOOSE i \in I : TRUE][3][k]

HistOk(e) ==
    CASE e.ev = "parse" -> e.out = "ok"
      [] e.ev = "newt" -> e.out = "ok" /\ ~e.isnil /\ e.a \in DOMAIN sr /\ e.b \in DOMAIN sr
      [] e.ev = "call" -> /\ e.t \in DOMAIN tf
                          /\ ~e.panicked                                 \* a transformer returns, it never panics
                          /\ e.res = Fresh(e, sr[tf[e.t].s].def, sr[tf[e.t].d].def, e.k)
      [] OTHER -> FALSE

TransformOk(e) ==
    /\ e.ev = "transform"
    /\ e.inputsame                                        \* the receiver is left untouched
    /\ IF cs.nilt THEN e.out = "ok" /\ e.res = cs.g /\ e.calls = <<>>          \* nil transformer = identity
       ELSE LET want == TR!Flatten(cs.g) IN
            IF cs.failat = 0 \/ cs.failat > Len(want)
            THEN /\ e.out = "ok" /\ e.res = TR!MapGeom(cs.g)
                 /\ e.calls = want                                            \* applied once per vertex, in order
            ELSE /\ e.out = "err:fake"                                        \* the transformer's error, no panic
                 /\ e.calls = SubSeq(want, 1, cs.failat)

Ok(e) == IF cs.kind = "hist" THEN HistOk(e) ELSE TransformOk(e)

Apply(e) ==
    /\ UNCHANGED cs
    /\ IF cs.kind # "hist" THEN UNCHANGED vars
       ELSE CASE e.ev = "parse" -> IF e.a \in Named THEN UNCHANGED vars
                                   ELSE sr' = Append(sr, [def |-> e.a, lazy |-> FALSE]) /\ UNCHANGED <<tf, ncalls, last>>
              [] e.ev = "newt" -> tf' = Append(tf, [s |-> e.a, d |-> e.b, cur |-> e.a]) /\ UNCHANGED <<sr, ncalls, last>>
              [] OTHER -> UNCHANGED vars
Reset(e) == /\ cs' = e
            /\ sr' = [i \in 1..Len(NamedSeq) |-> [def |-> NamedSeq[i], lazy |-> FALSE]]
            /\ tf' = <<>> /\ ncalls' = 0 /\ last' = <<>>
Keep == UNCHANGED <<cs, vars>>
TraceInit == TInit /\ cs = [kind |-> "none"] /\ Init
TraceNext == TStep(Ok, Apply, Reset, Keep)
TraceSpec == TraceInit /\ [][TraceNext]_<<l, fails, cs, vars>>
=============================================================================

---------------------------- MODULE ProjStateGen ----------------------------
(* History generator: the design spec plus a history variable; every history *)
(* of the bounded model that ends in a Call is printed (exhaustive), or      *)
(* random walks of a fixed length (-simulate).                               *)
EXTENDS ProjState, Json
CONSTANT EmitLen
VARIABLE h
GenInit == Init /\ h = <<>>
GenNext == \/ \E d \in Defs : Parse(d) /\ h' = Append(h, [op |-> "parse", a |-> d, b |-> 0])
           \/ \E i \in DOMAIN sr, j \in DOMAIN sr : NewT(i, j) /\ h' = Append(h, [op |-> "newt", a |-> i, b |-> j])
           \/ \E t \in DOMAIN tf, k \in 1..NPts : Call(t, k) /\ h' = Append(h, [op |-> "call", a |-> t, b |-> k])
GenSpec == GenInit /\ [][GenNext]_<<vars, h>>
Emit == (Len(h) > 0 /\ h[Len(h)].op = "call" /\ (EmitLen = 0 \/ Len(h) = EmitLen)) =>
            PrintT(ToJson([named |-> NamedSeq, ops |-> h]))
=============================================================================

------------------------------ MODULE Transform ------------------------------
(* C10 (second half) - Geom.Transform is pointwise and structure-preserving. *)
(* R1: TransformSpec.  The harness applies a counting fake transformer       *)
(*     T(x, y) = (y, -x) that fails on its failat-th call (0 = never).       *)
EXTENDS BoundsIter

Neg(c) == IF c = NegZero THEN 0 ELSE IF c = 0 THEN NegZero ELSE -c
T(v) == <<v[2], Neg(v[1])>>
MapPath(ps) == [i \in DOMAIN ps |-> T(ps[i])]
MapPaths(pss) == [i \in DOMAIN pss |-> MapPath(pss[i])]

(* the geometry every vertex of which is T of the corresponding input vertex *)
RECURSIVE MapGeom(_)
MapGeom(x) ==
    CASE x.t = "Point" -> G("Point", T(x.m))
      [] x.t \in {"MultiPoint", "LineString"} -> G(x.t, MapPath(x.m))
      [] x.t \in {"MultiLineString", "Polygon"} -> G(x.t, MapPaths(x.m))
      [] x.t = "MultiPolygon" -> G(x.t, [i \in DOMAIN x.m |-> MapPaths(x.m[i])])
      [] x.t = "GeometryCollection" -> G(x.t, [i \in DOMAIN x.m |-> MapGeom(x.m[i])])
      [] x.t = "Bounds" -> G("Polygon", <<MapPath(BoxCorners(x.m))>>)      \* a box becomes a polygon

(* number of transformer calls needed: a Bounds member contributes its 4 corners *)
TLen(x) == GLen(x)
=============================================================================

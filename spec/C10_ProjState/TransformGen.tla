----------------------------- MODULE TransformGen -----------------------------
(* Case generator for Geom.Transform: every geometry of the BoundsIter universe, *)
(* every position at which the transformer may fail, and the nil transformer.    *)
EXTENDS Transform, Json
VARIABLE c
CaseSet == { [kind |-> "transform", g |-> x, failat |-> f, nilt |-> FALSE] :
               x \in GeomCases(L2, L3o, L3i, LG), f \in 0..9 }
GenInit == /\ g = 0 /\ st = 0 /\ n = 0 /\ out = 0 /\ oob = FALSE
           /\ c \in {k \in CaseSet : k.failat <= GLen(k.g) + 1}
                    \cup { [kind |-> "transform", g |-> x, failat |-> 0, nilt |-> TRUE] : x \in GeomCases(L2, 1, 1, 1) }
           /\ PrintT(ToJson(c))
GenSpec == GenInit /\ [][UNCHANGED <<vars, c>>]_<<vars, c>>
=============================================================================

------------------------------ MODULE TraceIO ------------------------------
(* Trace validation plumbing shared by every *Trace.tla specification.        *)
(*                                                                          *)
(* A recording is an NDJSON file: independent cases concatenated, each      *)
(* introduced by a {"ev":"reset",...} line.  The trace specification is one *)
(* chain of states: the cursor `l` moves over the file; a line is either    *)
(* accepted by the family's Ok/Apply pair, or *rejected*: its line number   *)
(* is appended to `fails` and the cursor jumps to the next reset, so that a *)
(* bad recording neither hides the ones after it nor produces a thousand-   *)
(* state counterexample.  When the cursor passes the last line an always-   *)
(* true invariant prints <<"FAILS", fails>> and <<"CONSUMED", l>>; the      *)
(* runner accepts the run iff both are as expected.                         *)
EXTENDS Integers, Sequences, TLC, Json, IOUtils

Trace == ndJsonDeserialize(IOEnv.VERIF_TRACE)

VARIABLES l, fails

IsReset(i) == Trace[i].ev = "reset"

RECURSIVE NextReset(_)
NextReset(i) == IF i > Len(Trace) THEN i
                ELSE IF IsReset(i) THEN i ELSE NextReset(i + 1)

TInit == l = 1 /\ fails = <<>>

(* Ok(e): state predicate - may line e be accepted in the current state?    *)
(* Apply(e): action - the family variables after accepting e.               *)
(* Reset(e): action - the family variables at the start of a recording.     *)
(* Keep: action - UNCHANGED <<family variables>>.                           *)
TStep(Ok(_), Apply(_), Reset(_), Keep) ==
    /\ l <= Len(Trace)
    /\ LET e == Trace[l] IN
       IF e.ev = "reset"
       THEN Reset(e) /\ l' = l + 1 /\ UNCHANGED fails
       ELSE IF Ok(e)
            THEN Apply(e) /\ l' = l + 1 /\ UNCHANGED fails
            ELSE Keep /\ fails' = Append(fails, l) /\ l' = NextReset(l)

TReport == l > Len(Trace) => /\ PrintT(<<"FAILS", fails>>)
                             /\ PrintT(<<"CONSUMED", l>>)

(* has field *)
HasField(e, f) == f \in DOMAIN e
=============================================================================

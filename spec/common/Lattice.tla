------------------------------- MODULE Lattice -------------------------------
(* Exact plane geometry over integer pairs <<x, y>>.  Everything here is      *)
(* decided with integer arithmetic (determinants, squared lengths, cross-     *)
(* multiplied rationals); nothing is approximated.  TLC integers are 32-bit:  *)
(* degree-2 predicates are safe for |coordinates| <= 2^14, degree-4           *)
(* predicates (Dist2 comparisons, ParamLess) for |coordinates| <= 100.        *)
EXTENDS Integers, Sequences, FiniteSets

Sq(x) == x * x
AbsI(x) == IF x < 0 THEN -x ELSE x
MinI(a, b) == IF a < b THEN a ELSE b
MaxI(a, b) == IF a > b THEN a ELSE b
Sgn(x) == IF x > 0 THEN 1 ELSE IF x < 0 THEN -1 ELSE 0

(* twice the signed area of triangle a b c: > 0 iff c is to the left of a->b *)
Cross(a, b, c) == (b[1] - a[1]) * (c[2] - a[2]) - (b[2] - a[2]) * (c[1] - a[1])
Orient(a, b, c) == Sgn(Cross(a, b, c))
Dot(a, b, c) == (b[1] - a[1]) * (c[1] - a[1]) + (b[2] - a[2]) * (c[2] - a[2])   \* (b-a).(c-a)
Len2(a, b) == Sq(b[1] - a[1]) + Sq(b[2] - a[2])

InBox(p, a, b) == /\ MinI(a[1], b[1]) <= p[1] /\ p[1] <= MaxI(a[1], b[1])
                  /\ MinI(a[2], b[2]) <= p[2] /\ p[2] <= MaxI(a[2], b[2])
(* p lies on the closed segment a b (a = b allowed) *)
OnSegment(p, a, b) == Cross(a, b, p) = 0 /\ InBox(p, a, b)

(* closed segments a b and c d share at least one point *)
SegsMeet(a, b, c, d) ==
    LET o1 == Orient(a, b, c)  o2 == Orient(a, b, d)
        o3 == Orient(c, d, a)  o4 == Orient(c, d, b)
    IN \/ (o1 * o2 < 0 /\ o3 * o4 < 0)
       \/ OnSegment(c, a, b) \/ OnSegment(d, a, b) \/ OnSegment(a, c, d) \/ OnSegment(b, c, d)
(* the segments cross at a single point interior to both *)
ProperCross(a, b, c, d) == Orient(a, b, c) * Orient(a, b, d) < 0 /\ Orient(c, d, a) * Orient(c, d, b) < 0

(* squared distance from p to the closed segment a b as a rational <<num, den>>, den > 0 *)
Dist2PointSeg(p, a, b) ==
    LET c1 == Dot(a, b, p)
        c2 == Len2(a, b)
    IN IF c1 <= 0 THEN <<Len2(a, p), 1>>
       ELSE IF c2 <= c1 THEN <<Len2(b, p), 1>>
       ELSE <<Sq(Cross(a, b, p)), c2>>
RatLeq(r, t) == r[1] <= t * r[2]          \* r <= t for an integer t
RatGt(r, t) == r[1] > t * r[2]
RatLess(r, s) == r[1] * s[2] < s[1] * r[2]

(* an open path is simple: non-adjacent segments are disjoint, adjacent ones share only their common vertex *)
Segs(path) == 1..(Len(path) - 1)
Simple(path) ==
    /\ \A i \in Segs(path) : path[i] # path[i + 1]
    /\ \A i \in Segs(path), j \in Segs(path) :
         /\ (j > i + 1 => ~SegsMeet(path[i], path[i + 1], path[j], path[j + 1]))
         /\ (j = i + 1 => ~OnSegment(path[j + 1], path[i], path[i + 1]) /\ ~OnSegment(path[i], path[j], path[j + 1]))

(* shoelace: twice the signed area of a ring (closing segment implicit) *)
RECURSIVE Area2From(_, _)
Area2From(r, i) == IF i > Len(r) THEN 0
                   ELSE LET a == r[i]
                            b == r[(i % Len(r)) + 1]
                        IN a[1] * b[2] - b[1] * a[2] + Area2From(r, i + 1)
Area2(r) == IF Len(r) < 3 THEN 0 ELSE Area2From(r, 1)

(* even-odd crossing rule: the half-open rule counts an edge iff it straddles the horizontal line through p
   (lower end inclusive, upper end exclusive) and p is strictly to its left *)
EdgeCrosses(p, a, b) == LET lo == IF a[2] <= b[2] THEN a ELSE b
                            hi == IF a[2] <= b[2] THEN b ELSE a
                        IN lo[2] <= p[2] /\ p[2] < hi[2] /\ Cross(lo, hi, p) > 0
RingEdges(r) == {i \in 1..Len(r) : TRUE}
RingNext(r, i) == r[(i % Len(r)) + 1]
CrossCount(p, r) == Cardinality({i \in 1..Len(r) : EdgeCrosses(p, r[i], RingNext(r, i))})
OnRing(p, r) == \E i \in 1..Len(r) : OnSegment(p, r[i], RingNext(r, i))
(* rings with fewer than 3 vertices carry no boundary and no area *)
Rings3(rings) == {i \in 1..Len(rings) : Len(rings[i]) >= 3}
OnRings(p, rings) == \E i \in Rings3(rings) : OnRing(p, rings[i])
RECURSIVE SumCross(_, _, _)
SumCross(p, rings, i) == IF i > Len(rings) THEN 0
                         ELSE (IF Len(rings[i]) >= 3 THEN CrossCount(p, rings[i]) ELSE 0) + SumCross(p, rings, i + 1)
InRings(p, rings) == SumCross(p, rings, 1) % 2 = 1
=============================================================================

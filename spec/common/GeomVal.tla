------------------------------ MODULE GeomVal ------------------------------
(* Abstract geometry values shared by the codecs, iterators, Transform and  *)
(* Similar specifications.  A geometry is a record [t |-> type, m |-> ...]: *)
(*   Point              m = <<x, y>>                                        *)
(*   MultiPoint, LineString      m = sequence of vertices                   *)
(*   MultiLineString, Polygon    m = sequence of sequences of vertices      *)
(*   MultiPolygon       m = sequence of polygons' ring sequences            *)
(*   GeometryCollection m = sequence of geometry records                    *)
(*   Bounds             m = <<min, max>>                                    *)
(* A vertex is <<x, y>>; what x and y *are* (lattice integers, interned     *)
(* float64 bit patterns) is up to the using specification.                  *)
EXTENDS Integers, Sequences, SequencesExt

GeomTypes == {"Point", "MultiPoint", "LineString", "MultiLineString", "Polygon",
              "MultiPolygon", "GeometryCollection", "Bounds"}

Flat2(ss)  == FlattenSeq(ss)
Flat3(sss) == FlattenSeq([i \in DOMAIN sss |-> FlattenSeq(sss[i])])

BoxCorners(b) == << b[1], <<b[2][1], b[1][2]>>, b[2], <<b[1][1], b[2][2]>> >>

(* storage order of all vertices *)
RECURSIVE Flatten(_)
Flatten(g) ==
    CASE g.t = "Point" -> <<g.m>>
      [] g.t \in {"MultiPoint", "LineString"} -> g.m
      [] g.t \in {"MultiLineString", "Polygon"} -> Flat2(g.m)
      [] g.t = "MultiPolygon" -> Flat3(g.m)
      [] g.t = "GeometryCollection" -> FlattenSeq([i \in DOMAIN g.m |-> Flatten(g.m[i])])
      [] g.t = "Bounds" -> BoxCorners(g.m)

GLen(g) == Len(Flatten(g))

(* Skeleton: the same tree with every vertex replaced by 0 (type + nesting + member counts) *)
RECURSIVE Shape(_)
Shape(g) ==
    CASE g.t = "Point" -> [t |-> g.t, m |-> 0]
      [] g.t \in {"MultiPoint", "LineString"} -> [t |-> g.t, m |-> Len(g.m)]
      [] g.t \in {"MultiLineString", "Polygon"} -> [t |-> g.t, m |-> [i \in DOMAIN g.m |-> Len(g.m[i])]]
      [] g.t = "MultiPolygon" -> [t |-> g.t, m |-> [i \in DOMAIN g.m |-> [j \in DOMAIN g.m[i] |-> Len(g.m[i][j])]]]
      [] g.t = "GeometryCollection" -> [t |-> g.t, m |-> [i \in DOMAIN g.m |-> Shape(g.m[i])]]
      [] g.t = "Bounds" -> [t |-> g.t, m |-> 0]

=============================================================================

------------------------------- MODULE Shapefile -------------------------------
(* C16 - shapefile write followed by read is a FIFO of normalised records.        *)
(* State: the file (sequence of stored records), the encoder and decoder states.  *)
(* Actions: Create(kind, api) . Encode(r)* . CloseW . OpenR . DecodeRow*.          *)
(* R1: Stored(r) - what a record looks like after the round trip:                  *)
(*       LineString -> one-part MultiLineString; polygon rings closed if they were *)
(*       not, vertex order kept; *Bounds -> polygon with the five-vertex rectangle;*)
(*       nil -> no geometry; coordinates bit-identical (they are opaque ids here); *)
(*       integers and strings equal; floats equal if they have at most 10         *)
(*       decimals (exact ids), otherwise within 0.5e-10.                           *)
(*     DecodeRow number k returns Stored(k-th encoded record) and more = TRUE;     *)
(*     after the last record it returns more = FALSE.                              *)
EXTENDS GeomVal, FiniteSets, TLC

G(t, m) == [t |-> t, m |-> m]
NoGeom == G("nil", <<>>)
(* a ring is closed when its first and last vertices are numerically equal (coordinate id 2 is -0, id 1 is +0) *)
NumId(c) == IF c = 2 THEN 1 ELSE c
NumV(v) == <<NumId(v[1]), NumId(v[2])>>
CloseRing(r) == IF Len(r) > 0 /\ NumV(r[1]) # NumV(r[Len(r)]) THEN Append(r, r[1]) ELSE r
NormGeom(g) ==
    CASE g.t = "LineString" -> G("MultiLineString", <<g.m>>)
      [] g.t = "Polygon" -> G("Polygon", [i \in DOMAIN g.m |-> CloseRing(g.m[i])])
      [] g.t = "Bounds" -> G("Polygon", << Append(BoxCorners(g.m), g.m[1]) >>)
      [] OTHER -> g
Stored(r) == [r EXCEPT !.g = NormGeom(r.g)]

(* value pools (indices; the harness holds the actual values): FloatExact[v] = the decimal expansion has <= 10 places *)
FloatExact == <<TRUE, FALSE, TRUE, TRUE, FALSE>>
NFloats == 5
NNames == 7
Ints == {0, -1, 2147483647, -999999999}

CONSTANT Records       \* kind -> set of records that can be written to a file of that kind
Kinds == DOMAIN Records
(* "struct2" / "fields2": the same two API pairs with another column layout - a 10-byte and an 11-byte column name, the
   string column last *)
Apis == {"struct", "fields", "struct2", "fields2", "struct3"}      \* "struct3": a field whose Go name equals the tag of another field

VARIABLES kind, api, file, wstate, rrow, rstate, out, nenc
vars == <<kind, api, file, wstate, rrow, rstate, out, nenc>>
CONSTANT MaxRecs

Init == /\ kind = "none" /\ api = "none" /\ file = <<>> /\ wstate = "none" /\ rrow = 0 /\ rstate = "none"
        /\ out = [more |-> FALSE, r |-> 0] /\ nenc = 0
Create(k, a) == /\ wstate = "none" /\ kind' = k /\ api' = a /\ wstate' = "open"
                /\ UNCHANGED <<file, rrow, rstate, out, nenc>>
Encode(r) == /\ wstate = "open" /\ nenc < MaxRecs /\ r \in Records[kind]
             /\ (r.g = NoGeom => api \in {"fields", "fields2"})                 \* a nil geometry can only be passed through EncodeFields
             /\ file' = Append(file, Stored(r)) /\ nenc' = nenc + 1
             /\ UNCHANGED <<kind, api, wstate, rrow, rstate, out>>
CloseW == /\ wstate = "open" /\ wstate' = "closed" /\ UNCHANGED <<kind, api, file, rrow, rstate, out, nenc>>
OpenR == /\ wstate = "closed" /\ rstate = "none" /\ rstate' = "open" /\ UNCHANGED <<kind, api, file, wstate, rrow, out, nenc>>
DecodeRow == /\ rstate = "open"
             /\ IF rrow < Len(file) THEN out' = [more |-> TRUE, r |-> file[rrow + 1]] /\ rrow' = rrow + 1 /\ UNCHANGED rstate
                ELSE out' = [more |-> FALSE, r |-> 0] /\ rstate' = "done" /\ UNCHANGED rrow
             /\ UNCHANGED <<kind, api, file, wstate, nenc>>
(* a row read for its geometry alone (DecodeRowFields without field names): the decoder has one cursor, whichever call moves it *)
DecodeGeom == DecodeRow
Next == \/ \E k \in Kinds, a \in Apis : Create(k, a)
        \/ \E k \in Kinds : \E r \in Records[k] : Encode(r)
        \/ CloseW \/ OpenR \/ DecodeRow \/ DecodeGeom
Spec == Init /\ [][Next]_vars

(* order and count are preserved; nothing is read that was not written *)
Fifo == /\ rrow <= Len(file) /\ Len(file) = nenc
        /\ (out.more => out.r = file[rrow])
ReadsAll == rstate = "done" => rrow = Len(file)
=============================================================================

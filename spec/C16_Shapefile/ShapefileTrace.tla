----------------------------- MODULE ShapefileTrace -----------------------------
(* Trace spec for C16: the recorded calls on real shapefiles are followed by the queue model; every DecodeRow
   answer must be the Stored form of the record at the read position, every call must succeed. *)
EXTENDS Shapefile, TraceIO
ValOk(e, want) == IF FloatExact[want.val] THEN e.val = want.val /\ e.valdiff = 0
                  ELSE e.valdiff >= -50 /\ e.valdiff <= 50           \* units of 1e-12: agreement to 10 decimal places
DecodeOk(e) ==
    /\ rstate = "open"
    /\ IF rrow < Len(file)
       THEN LET w == file[rrow + 1] IN
            /\ e.more /\ e.err = ""
            /\ e.g = w.g /\ e.id = w.id /\ e.name = w.name /\ ValOk(e, w)
       ELSE ~e.more /\ e.err = ""
DecodeGeomOk(e) == /\ rstate = "open"
                   /\ IF rrow < Len(file) THEN e.more /\ e.err = "" /\ e.g = file[rrow + 1].g
                      ELSE ~e.more /\ e.err = ""
Ok(e) == CASE e.ev = "create" -> e.out = "ok" /\ wstate = "none"
           [] e.ev = "encode" -> e.out = "ok" /\ wstate = "open"
           [] e.ev = "close" -> e.out = "ok" /\ wstate = "open"
           [] e.ev = "open" -> e.out = "ok" /\ wstate = "closed"
           [] e.ev = "decode" -> e.out = "ok" /\ DecodeOk(e)
           [] e.ev = "decodeg" -> e.out = "ok" /\ DecodeGeomOk(e)
           [] OTHER -> FALSE
Apply(e) ==
    CASE e.ev = "create" -> kind' = e.kind /\ api' = e.api /\ wstate' = "open" /\ UNCHANGED <<file, rrow, rstate, out, nenc>>
      [] e.ev = "encode" -> file' = Append(file, Stored(e.r)) /\ nenc' = nenc + 1 /\ UNCHANGED <<kind, api, wstate, rrow, rstate, out>>
      [] e.ev = "close" -> CloseW
      [] e.ev = "open" -> OpenR
      [] e.ev = "decode" -> DecodeRow
      [] e.ev = "decodeg" -> DecodeGeom
Reset(e) == /\ kind' = "none" /\ api' = "none" /\ file' = <<>> /\ wstate' = "none" /\ rrow' = 0 /\ rstate' = "none"
            /\ out' = [more |-> FALSE, r |-> 0] /\ nenc' = 0
Keep == UNCHANGED vars
TraceInit == TInit /\ Init
TraceNext == TStep(Ok, Apply, Reset, Keep)
TraceSpec == TraceInit /\ [][TraceNext]_<<l, fails, vars>>
=============================================================================

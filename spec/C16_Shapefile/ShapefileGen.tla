------------------------------ MODULE ShapefileGen ------------------------------
EXTENDS ShapefileMC, Json
(* behaviour generator: a history variable over the design spec *)
VARIABLE h
CONSTANT EmitAll
(* which rows the behaviours read for the geometry alone: the first of two, for about half of the two-record files (chosen by
   the records, so that no behaviour is added) *)
GeomOnlyHere == rrow = 0 /\ Len(file) >= 2 /\ (file[1].val + file[2].name) % 2 = 0
GenInit == Init /\ h = <<>>
GenNext == \/ \E k \in Kinds, a \in Apis : Create(k, a) /\ h' = Append(h, [op |-> "create", kind |-> k, api |-> a])
           \/ \E k \in Kinds : \E r \in Records[k] : Encode(r) /\ h' = Append(h, [op |-> "encode", r |-> r])
           \/ CloseW /\ h' = Append(h, [op |-> "close"])
           \/ OpenR /\ h' = Append(h, [op |-> "open"])
           \/ DecodeRow /\ ~GeomOnlyHere /\ h' = Append(h, [op |-> "decode"])
           \/ DecodeGeom /\ GeomOnlyHere /\ h' = Append(h, [op |-> "decodeg"])
GenSpec == GenInit /\ [][GenNext]_<<vars, h>>
Emit == rstate = "done" => PrintT(ToJson([kind |-> "shp", ops |-> h]))
=============================================================================

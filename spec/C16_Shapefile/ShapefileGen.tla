------------------------------ MODULE ShapefileGen ------------------------------
EXTENDS ShapefileMC, Json
(* behaviour generator: a history variable over the design spec *)
VARIABLE h
CONSTANT EmitAll
GenInit == Init /\ h = <<>>
GenNext == \/ \E k \in Kinds, a \in Apis : Create(k, a) /\ h' = Append(h, [op |-> "create", kind |-> k, api |-> a])
           \/ \E k \in Kinds : \E r \in Records[k] : Encode(r) /\ h' = Append(h, [op |-> "encode", r |-> r])
           \/ CloseW /\ h' = Append(h, [op |-> "close"])
           \/ OpenR /\ h' = Append(h, [op |-> "open"])
           \/ DecodeRow /\ h' = Append(h, [op |-> "decode"])
GenSpec == GenInit /\ [][GenNext]_<<vars, h>>
Emit == rstate = "done" => PrintT(ToJson([kind |-> "shp", ops |-> h]))
=============================================================================

------------------------------ MODULE ShapefileMC ------------------------------
(* Record pools for C16.  Coordinates are ids 1..6 of adversarial finite float64 bit patterns held by the harness. *)
EXTENDS Shapefile
Pt(k) == <<(k % 6) + 1, ((2 * k + 3) % 6) + 1>>
Path(base, n) == [q \in 1..n |-> Pt(base + q)]
Closed(base, n) == Append(Path(base, n), Pt(base + 1))
Geoms == [Point |-> {G("Point", Pt(1)), G("Point", Pt(4))},
          MultiPoint |-> {G("MultiPoint", Path(0, 1)), G("MultiPoint", <<>>)},            \* (a geometry without points is a record like any other)
          LineString |-> {G("LineString", Path(0, 2)), G("LineString", Path(1, 4))},
          MultiLineString |-> {G("MultiLineString", <<Path(0, 2)>>), G("MultiLineString", <<Path(0, 2), Path(2, 3)>>),
                              G("MultiLineString", <<Path(1, 1), Path(2, 2), Path(4, 4)>>),
                              G("MultiLineString", <<Path(0, 2), <<>>, Path(2, 3)>>)},        \* (a part without points between two others)
          Polygon |-> {G("Polygon", <<Closed(0, 3)>>), G("Polygon", <<Path(1, 3)>>), G("Polygon", <<Closed(0, 4), Path(2, 3)>>),
                      G("Polygon", <<Path(0, 4), Closed(1, 3), Path(3, 2)>>), G("Polygon", <<Closed(0, 3), <<>>, Closed(2, 3)>>)},      \* (the last ring: two vertices, unclosed),
          Bounds |-> {G("Bounds", << <<2, 1>>, <<3, 6>> >>), G("Bounds", << <<4, 4>>, <<1, 3>> >>)}]          \* proper boxes: min < max on both axes
Attrs == {[id |-> 0, name |-> 1, val |-> 1], [id |-> -1, name |-> 2, val |-> 2], [id |-> 2147483647, name |-> 3, val |-> 3],
          [id |-> -999999999, name |-> 4, val |-> 4], [id |-> 7, name |-> 2, val |-> 5],
          [id |-> -2, name |-> 1, val |-> 4], [id |-> -3, name |-> 3, val |-> 5],     \* ids -2 / -3 stand for 9999999999 and 2147483648
          [id |-> 3, name |-> 5, val |-> 1], [id |-> 4, name |-> 6, val |-> 2], [id |-> 5, name |-> 7, val |-> 3]}      \* names 5-7: white space other than blanks at either end
RecsOf(k) == {[g |-> x, id |-> a.id, name |-> a.name, val |-> a.val] : x \in Geoms[k], a \in Attrs}
MCRecords == [k \in DOMAIN Geoms |-> RecsOf(k)]

=============================================================================

-------------------------- MODULE GeoJSONShapeTrace --------------------------
(* Trace spec for the GeoJSON half of C07: one geojson.Decode (text) or        *)
(* FromGeoJSON (Go value) call per recording.                                  *)
EXTENDS GeoJSONShape, TraceIO
VARIABLES cs, drift
Ok(e) == /\ e.ev = "gjdec"
         /\ e.out \in {"ok", "err"}                                     \* total: never a panic
         /\ e.alloc <= 64 * e.len + 1048576
         /\ (e.out = "ok" => e.reenc = "ok" /\ e.g2 = e.g)               \* re-encode + decode is stable
Apply(e) == /\ UNCHANGED cs
            /\ drift' = IF "accepts" \in DOMAIN cs /\ (cs.accepts # (e.out = "ok")
                                                      \/ (cs.accepts /\ e.g # Denotes(cs.ty, cs.co)))
                        THEN drift + 1 ELSE drift
Reset(e) == cs' = e /\ UNCHANGED drift
Keep == UNCHANGED <<cs, drift>>
TraceInit == TInit /\ cs = [kind |-> "none"] /\ drift = 0 /\ ty = "" /\ co = 0
TraceNext == TStep(Ok, Apply, Reset, Keep) /\ UNCHANGED <<ty, co>>
TraceSpec == TraceInit /\ [][TraceNext]_<<l, fails, cs, drift, ty, co>>
Report == TReport /\ (l > Len(Trace) => PrintT(<<"DRIFT", drift>>))
=============================================================================

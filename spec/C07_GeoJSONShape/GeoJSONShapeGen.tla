--------------------------- MODULE GeoJSONShapeGen ---------------------------
EXTENDS GeoJSONShape, Json
VARIABLE c
Thin(x) == TRUE
GenInit == /\ Init
           /\ c = [kind |-> "gj", ty |-> ty, co |-> co, accepts |-> Accepts(ty, co)]
           /\ PrintT(ToJson(c))
GenSpec == GenInit /\ [][UNCHANGED <<ty, co, c>>]_<<ty, co, c>>
=============================================================================

---------------------------- MODULE GeoJSONShape ----------------------------
(* C07 (GeoJSON half) - decoding arbitrarily shaped JSON is total.             *)
(* A JSON value is a tree of nodes [k, n, v]: k = "arr" with children v, or a *)
(* leaf k = "num" (value n) | "str" | "null" | "bool" | "obj".                 *)
(* R2: doFromGeoJSON's shape checks transcribed (they look at the arity of the *)
(*     FIRST member only; later members are checked while converting).         *)
(* R1: Total (a geometry or an error, never a panic), bounded allocation,      *)
(*     Reencode (a successful decode re-encodes and decodes to the same value).*)
EXTENDS Integers, Sequences, FiniteSets, TLC

Arr(v) == [k |-> "arr", n |-> 0, v |-> v]
Num(x) == [k |-> "num", n |-> x, v |-> <<>>]
Leaf(kind) == [k |-> kind, n |-> 0, v |-> <<>>]
Leafs == {Num(1), Num(2), Leaf("str"), Leaf("null"), Leaf("bool"), Leaf("obj")}
IsArr(x) == x.k = "arr"
IsNum(x) == x.k = "num"

(* decodeCoordinatesN: an array nested exactly N deep whose innermost elements are numbers *)
RECURSIVE DecN(_, _)
DecN(x, n) == IsArr(x) /\ \A i \in 1..Len(x.v) : IF n = 1 THEN IsNum(x.v[i]) ELSE DecN(x.v[i], n - 1)
(* makeLinearRing: every position has exactly two numbers *)
RingOk(x) == \A i \in 1..Len(x.v) : Len(x.v[i].v) = 2
RingsOk(x) == \A i \in 1..Len(x.v) : RingOk(x.v[i])

Accepts(ty, c) ==
    CASE ty = "Point" -> DecN(c, 1) /\ Len(c.v) = 2
      [] ty \in {"MultiPoint", "LineString"} -> DecN(c, 2) /\ Len(c.v) > 0 /\ RingOk(c)
      [] ty \in {"MultiLineString", "Polygon"} -> DecN(c, 3) /\ Len(c.v) > 0 /\ Len(c.v[1].v) > 0 /\ RingsOk(c)
      [] ty = "MultiPolygon" -> DecN(c, 4) /\ Len(c.v) > 0 /\ Len(c.v[1].v) > 0 /\ Len(c.v[1].v[1].v) > 0
                                /\ \A i \in 1..Len(c.v) : RingsOk(c.v[i])
      [] OTHER -> FALSE

(* the geometry value a successful decode denotes *)
Pt(x) == <<x.v[1].n, x.v[2].n>>
Path(x) == [i \in 1..Len(x.v) |-> Pt(x.v[i])]
Paths(x) == [i \in 1..Len(x.v) |-> Path(x.v[i])]
Denotes(ty, c) ==
    CASE ty = "Point" -> [t |-> ty, m |-> Pt(c)]
      [] ty \in {"MultiPoint", "LineString"} -> [t |-> ty, m |-> Path(c)]
      [] ty \in {"MultiLineString", "Polygon"} -> [t |-> ty, m |-> Paths(c)]
      [] ty = "MultiPolygon" -> [t |-> ty, m |-> [i \in 1..Len(c.v) |-> Paths(c.v[i])]]

(* all value trees of depth <= d and width <= w (small d only) *)
RECURSIVE Trees(_, _)
Trees(d, w) == IF d = 0 THEN Leafs
               ELSE Leafs \cup {Arr(s) : s \in UNION {[1..n -> Trees(d - 1, w)] : n \in 0..w}}
Types == {"Point", "MultiPoint", "LineString", "MultiLineString", "Polygon", "MultiPolygon", "GeometryCollection", "", "point"}

(* well-formed coordinate trees, and everything one mutation away from them: any subtree replaced by a leaf of
   each kind, an empty array, arrays of arity 1 and 3, one more level of nesting; a member dropped or duplicated *)
P2 == Arr(<<Num(1), Num(2)>>)
Repl == Leafs \cup {Arr(<<>>), Arr(<<Num(1)>>), Arr(<<Num(1), Num(2), Num(1)>>), Arr(<<P2>>)}
RECURSIVE Mut(_)
Mut(x) == Repl \cup
          (IF ~IsArr(x) THEN {}
           ELSE UNION {{Arr([x.v EXCEPT ![i] = y]) : y \in Mut(x.v[i])} : i \in 1..Len(x.v)}
                \cup (IF Len(x.v) >= 1 THEN {Arr(Tail(x.v)), Arr(Append(x.v, x.v[1]))} ELSE {}))
Ring1 == Arr(<<P2>>)
Ring2 == Arr(<<P2, Arr(<<Num(2), Num(1)>>)>>)
(* rings whose closing position is itself repeated, and a ring of one position three times: still closed when a decoder
   "normalises" one closing position away, so that decoding the re-encoded result would differ *)
Q2 == Arr(<<Num(2), Num(1)>>)
RingDD == Arr(<<P2, Q2, Arr(<<Num(2), Num(2)>>), P2, P2>>)
RingPPP == Arr(<<P2, P2, P2>>)
Bases == {<<"Polygon", Arr(<<RingDD>>)>>, <<"MultiPolygon", Arr(<<Arr(<<RingPPP, RingDD>>)>>)>>, <<"LineString", RingPPP>>,
          <<"Point", P2>>, <<"LineString", Ring2>>, <<"MultiPoint", Ring1>>,
          <<"Polygon", Arr(<<Ring2, Ring1>>)>>, <<"MultiLineString", Arr(<<Ring1, Ring2>>)>>, <<"Polygon", Arr(<<Ring2, Arr(<<>>)>>)>>,
          <<"MultiPolygon", Arr(<<Arr(<<Ring2>>), Arr(<<Ring1, Arr(<<>>)>>)>>)>>, <<"MultiPolygon", Arr(<<Arr(<<Ring1>>)>>)>>}
Mutants == UNION {{<<b[1], y>> : y \in Mut(b[2]) \cup {b[2]}} : b \in Bases}
(* the same trees under every type string (a coordinates member that belongs to another type) *)
CrossTyped == {<<t, b[2]>> : t \in Types, b \in Bases}

CONSTANTS Depth, Width
VARIABLES ty, co
Universe == Mutants \cup CrossTyped \cup (Types \X Trees(Depth, Width))
Init == \E u \in Universe : ty = u[1] /\ co = u[2]
Spec == Init /\ [][UNCHANGED <<ty, co>>]_<<ty, co>>
(* design-level sanity: whatever R2 accepts denotes a geometry of the announced type whose re-encoding R2 accepts again *)
RECURSIVE ToTree(_, _)
ToTree(m, depth) == IF depth = 0 THEN Num(m) ELSE Arr([i \in 1..Len(m) |-> ToTree(m[i], depth - 1)])
DepthOf(t) == CASE t = "Point" -> 1 [] t \in {"MultiPoint", "LineString"} -> 2 [] t \in {"MultiLineString", "Polygon"} -> 3 [] OTHER -> 4
AcceptStable == Accepts(ty, co) => LET gv == Denotes(ty, co) IN
                                   /\ gv.t = ty
                                   /\ Accepts(ty, ToTree(gv.m, DepthOf(ty)))
                                   /\ Denotes(ty, ToTree(gv.m, DepthOf(ty))) = gv
=============================================================================

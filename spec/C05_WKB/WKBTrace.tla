------------------------------- MODULE WKBTrace -------------------------------
(* Trace specification for C05 (Focus = "C05") and the WKB/hex half of C07      *)
(* (Focus = "C07").  Every recording is one call of the real encoder or decoder *)
(* on bytes; the oracle is the byte-level OGC serializer / reference decoder of *)
(* WKB.tla.                                                                     *)
EXTENDS WKB, TraceIO
CONSTANT Focus
VARIABLE cs
NoGeom == [t |-> "none", m |-> <<>>]

(* C05: the produced bytes are exactly the OGC layout; hex is the same bytes in lower-case hexadecimal *)
EncOk(e) == /\ e.ev = "enc" /\ e.out = "ok" /\ e.out2 = "ok"
            /\ e.bytes = EncBytes(cs.g, cs.bo)
            /\ e.hex = HexDigits(e.bytes)
            /\ e.keep                                  \* the encodings returned for the previous geometry have not changed
            /\ e.stream                                \* encodings written back to back are read back one by one from a plain reader

(* decoding agrees with the reference decoder (only evaluated for inputs listed in the trace) *)
DecRef(e) == LET r == DecBytes(cs.bytes) IN
             IF r.ok THEN e.out = "ok" /\ e.g = r.g ELSE e.out = "err"
HexSame(e) == e.hexlow = (IF e.out = "ok" THEN e.g ELSE [t |-> "err", m |-> <<>>]) /\ e.hexup = e.hexlow /\ e.hexbad = "ok"
(* wkb.Read from a reader that returns one byte per call, and from one that returns half of what is asked for *)
SlowSame(e) == LET want == IF e.out = "ok" THEN e.g ELSE [t |-> "err", m |-> <<>>] IN e.gone = want /\ e.ghalf = want

Dec05(e) == /\ e.ev = "dec" /\ DecRef(e) /\ HexSame(e) /\ SlowSame(e)
            /\ ("want" \in DOMAIN cs => e.out = "ok" /\ e.g = cs.want)           \* lossless, any byte order at any depth
            /\ (e.out = "ok" => e.g2 = e.g)

(* C07: total (a geometry or an error), allocation bounded by the input length, re-encoding is stable *)
Dec07(e) == /\ e.ev = "dec"
            /\ e.out \in {"ok", "err"}
            /\ e.alloc <= 64 * e.len + 1048576
            /\ (e.out = "ok" => e.reenc = "ok" /\ e.g2 = e.g /\ e.g # NoGeom)
            /\ e.hexbad = "ok" /\ e.hexlow.t # "panic" /\ e.hexup = e.hexlow
            /\ e.gone.t # "panic" /\ e.ghalf.t # "panic"
            /\ ("bytes" \in DOMAIN cs => DecRef(e))

(* deep chains: the encoder's bytes are the OGC layout of the chain; decoding them, decoding the mixed-order encoding of the
   case and decoding either as hex text all give back the same depth and a bit-identical leaf *)
DeepOk(e) == /\ e.ev = "deep" /\ e.out = "ok" /\ e.err = ""
             /\ e.bytes = EncBytes(DeepG(cs.leaf, cs.d), cs.bo) /\ e.hexsame
             /\ \A i \in 1..3 : e.depths[i] = cs.d /\ e.leaves[i] = cs.leaf

Ok(e) == IF Focus = "C05" THEN (IF cs.kind = "enc" THEN EncOk(e) ELSE IF cs.kind = "deep" THEN DeepOk(e) ELSE (cs.valid => Dec05(e)))
         ELSE IF cs.kind = "hexstr" THEN e.ev = "hexstr" /\ e.out = "ok" /\ e.res \in {"ok", "err"}     \* total on any string
         ELSE (cs.kind = "dec" => Dec07(e))
Apply(e) == UNCHANGED cs
Reset(e) == cs' = e
Keep == UNCHANGED cs
TraceInit == TInit /\ cs = [kind |-> "none"]
TraceNext == TStep(Ok, Apply, Reset, Keep)
TraceSpec == TraceInit /\ [][TraceNext]_<<l, fails, cs>>
=============================================================================

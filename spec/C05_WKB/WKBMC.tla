-------------------------------- MODULE WKBMC --------------------------------
(* Self-consistency of the byte-level oracle: decoding the encoding of every   *)
(* geometry of the universe, in every byte-order pattern, returns it.          *)
EXTENDS WKB, TLC
CONSTANTS L, LG
VARIABLES g, pat
Pats == {<<a, b, c>> : a \in {0, 1}, b \in {0, 1}, c \in {0, 1}}
Init == g \in Geoms(L, LG) /\ pat \in Pats
Spec == Init /\ [][UNCHANGED <<g, pat>>]_<<g, pat>>
RoundTrip == LET bs == EncPat(g, pat, 0, 0)
                 r == DecBytes(bs)
             IN r.ok /\ r.g = g /\ r.pos = Len(bs) + 1
TruncationsRejected == LET bs == EncPat(g, pat, 0, 0) IN
                       \A n \in 0..(Len(bs) - 1) : ~DecBytes(SubSeq(bs, 1, n)).ok
=============================================================================

-------------------------------- MODULE WKBGen --------------------------------
(* Case generators for C05 (valid encodings both ways) and C07 (every terminal  *)
(* behaviour of the decoder automaton, as concrete bytes).                      *)
EXTENDS WKBDecoder, Json
CONSTANTS L, LG, Mode,      \* Mode = "codec" | "hostile"
          WideN, WideB,     \* member counts of the wide elements (all kinds / line strings only)
          HexLen,           \* longest string of the hex-decoder alphabet
          DeepD             \* nesting depths of the deep chains
VARIABLE c
Pats == {<<a, b, d>> : a \in {0, 1}, b \in {0, 1}, d \in {0, 1}}
CodecCases == [kind : {"enc"}, g : Geoms(L, LG) \cup Wide(WideN, WideB), bo : {0, 1}]
              \cup {[kind |-> "dec", bytes |-> EncPat(x, p, 0, 0), valid |-> TRUE, want |-> x] : x \in Geoms(L, LG), p \in Pats}
              \cup {[kind |-> "dec", bytes |-> EncPat(x, p, 0, 0), valid |-> TRUE, want |-> x] : x \in Wide(WideN, WideB), p \in {<<0, 0, 0>>, <<1, 1, 0>>}}
(* deep chains: the case carries the leaf and the depth (the harness builds the chain and encodes it) and one encoding with
   byte orders alternating by depth (the harness decodes it and peels the collections off again) *)
DeepCases == {[kind |-> "deep", leaf |-> g, d |-> d, bo |-> p[1], bytes |-> EncPat(DeepG(g, d), p, 0, 0)] :
                g \in {G("Point", PtK(5)), G("LineString", PathK(0, 2))}, d \in DeepD, p \in {<<0, 0, 0>>, <<1, 1, 0>>}}
(* members of a foreign type: a complete, decodable geometry of another type where a multi-geometry requires a Point /
   LineString / Polygon.  The reference decoder rejects every one of them (so must the code: an error, not a nil geometry) *)
ForeignMember == {G("Point", PtK(1)), G("LineString", PathK(0, 2)), G("LineString", <<PtK(3), PtK(3)>>), G("Polygon", PathsK(1, <<0, 0>>)),
                  G("Polygon", PathsK(1, <<2>>)), G("MultiPoint", PathK(1, 1)), G("GeometryCollection", <<>>)}
MemberType(t) == CASE t = "MultiPoint" -> "Point" [] t = "MultiLineString" -> "LineString" [] t = "MultiPolygon" -> "Polygon"
ForeignBytes(t, m, bo, good) ==
    LET ok == CASE t = "MultiPoint" -> G("Point", PtK(2)) [] t = "MultiLineString" -> G("LineString", PathK(2, 2)) [] t = "MultiPolygon" -> G("Polygon", PathsK(2, <<1>>))
        ms == IF good = 0 THEN <<m>> ELSE IF good = 1 THEN <<ok, m>> ELSE <<m, ok>>
    IN <<bo>> \o U32(TypeCode(t), bo) \o U32(Len(ms), bo) \o FlattenSeq([i \in DOMAIN ms |-> EncBytes(ms[i], bo)])
ForeignCases == LET bs == {ForeignBytes(t, m, bo, good) : t \in {"MultiPoint", "MultiLineString", "MultiPolygon"},
                                                       m \in {x \in ForeignMember : TRUE}, bo \in {0, 1}, good \in {0, 1, 2}}
                    bad == {b \in bs : ~DecBytes(b).ok}
                    (* unknown type codes, 0 among them, alone and as a member *)
                    unk == {<<bo>> \o U32(ty, bo) \o tail : bo \in {0, 1}, ty \in {0, 8, 255}, tail \in {<<>>, <<0, 0, 0, 0>>, PtB(PtK(1), 0)}}
                          \cup {<<bo>> \o U32(TypeCode(t), bo) \o U32(1, bo) \o <<bo>> \o U32(0, bo) \o PtB(PtK(1), bo) :
                                   bo \in {0, 1}, t \in {"MultiPoint", "MultiLineString", "MultiPolygon", "GeometryCollection"}}
                    (* a long point array (more than one internal read chunk, not a multiple of it) followed by bytes that do not
                       belong to the geometry: decoding succeeds, and so must decoding the re-encoded result *)
                    trail == {EncBytes(G("LineString", PathL(n)), bo) \o [i \in 1..(16 * 1030) |-> 0] : n \in {1100}, bo \in {0, 1}}
                IN {[kind |-> "dec", bytes |-> b, valid |-> FALSE] : b \in bad \cup unk \cup trail}
                   \cup {[kind |-> "dec", bytes |-> <<0>> \o U32(7, 0) \o U32(2, 0) \o b \o EncBytes(G("Point", PtK(4)), 0), valid |-> FALSE] : b \in bad}
(* short strings over an alphabet of hex digits, letters next to them, the backslash / x of an escaped prefix, blank, NUL and a
   high byte, handed to the hex decoder: a geometry or an error, never a panic *)
HexAlphabet == {48, 49, 102, 70, 103, 92, 120, 32, 0, 255}
HexStrings == UNION {[1..n -> HexAlphabet] : n \in 0..HexLen}
HexCases == {[kind |-> "hexstr", chars |-> s] : s \in HexStrings}
GenInit == IF Mode = "foreign" THEN c \in ForeignCases \cup HexCases /\ PrintT(ToJson(c)) /\ Init
           ELSE IF Mode = "codec"
           THEN c \in CodecCases \cup DeepCases /\ PrintT(ToJson(c)) /\ Init
           ELSE c = 0 /\ Init
GenNext == Mode = "hostile" /\ Next /\ UNCHANGED c
GenSpec == GenInit /\ [][GenNext]_<<vars, c>>
EmitHostile == (Mode = "hostile" /\ status \in {"ok", "err"}) =>
                  PrintT(ToJson([kind |-> "dec", bytes |-> bytes, valid |-> FALSE]))
=============================================================================

-------------------------------- MODULE WKBGen --------------------------------
(* Case generators for C05 (valid encodings both ways) and C07 (every terminal  *)
(* behaviour of the decoder automaton, as concrete bytes).                      *)
EXTENDS WKBDecoder, Json
CONSTANTS L, LG, Mode,      \* Mode = "codec" | "hostile"
          WideN, WideB      \* member counts of the wide elements (all kinds / line strings only)
VARIABLE c
Pats == {<<a, b, d>> : a \in {0, 1}, b \in {0, 1}, d \in {0, 1}}
CodecCases == [kind : {"enc"}, g : Geoms(L, LG) \cup Wide(WideN, WideB), bo : {0, 1}]
              \cup {[kind |-> "dec", bytes |-> EncPat(x, p, 0, 0), valid |-> TRUE, want |-> x] : x \in Geoms(L, LG), p \in Pats}
              \cup {[kind |-> "dec", bytes |-> EncPat(x, p, 0, 0), valid |-> TRUE, want |-> x] : x \in Wide(WideN, WideB), p \in {<<0, 0, 0>>, <<1, 1, 0>>}}
GenInit == IF Mode = "codec"
           THEN c \in CodecCases /\ PrintT(ToJson(c)) /\ Init
           ELSE c = 0 /\ Init
GenNext == Mode = "hostile" /\ Next /\ UNCHANGED c
GenSpec == GenInit /\ [][GenNext]_<<vars, c>>
EmitHostile == (Mode = "hostile" /\ status \in {"ok", "err"}) =>
                  PrintT(ToJson([kind |-> "dec", bytes |-> bytes, valid |-> FALSE]))
=============================================================================

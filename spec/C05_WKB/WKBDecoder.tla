------------------------------ MODULE WKBDecoder ------------------------------
(* C07 - R2: the WKB decoder as a push-down automaton over *reads*.  The       *)
(* environment (the untrusted input) chooses, at each read, a value class for  *)
(* the field or ends the input part-way through it.  `alloc` grows when the    *)
(* code sizes memory: the repaired decoder never sizes a slice from a count    *)
(* header alone - point arrays are read in chunks of at most Chunk points and  *)
(* member slices grow by appending - so memory follows the bytes actually      *)
(* present.  `bytes` accumulates the input being described, so that every      *)
(* behaviour of the automaton is also a concrete hostile input for the real    *)
(* decoder.                                                                    *)
EXTENDS WKB, TLC

CONSTANTS MaxReads, MaxDepth
Chunk == 1024          \* points read (and allocated) at a time
MemberHint == 16       \* capacity reserved for rings / members before any is read
Counts == {0, 1, 2, 1048576, 268435456, MaxCount}
CountBytes(n, bo) == IF n = MaxCount THEN (IF bo = 0 THEN <<255, 255, 255, 255>> ELSE <<255, 255, 255, 255>>) ELSE U32(n, bo)

VARIABLES stack,    \* frames: [k |-> "hdr", want] | [k |-> "cnt", of, bo] | [k |-> "pts", rem, bo] | [k |-> "rings", rem, bo] | [k |-> "mem", rem, want]
          bytes, alloc, status, nreads
vars == <<stack, bytes, alloc, status, nreads>>
Top == stack[Len(stack)]
Pop == SubSeq(stack, 1, Len(stack) - 1)
MinI(a, b) == IF a < b THEN a ELSE b
(* a counted frame with nothing left is complete: it is never pushed *)
Fr(f) == IF f.rem = 0 THEN <<>> ELSE <<f>>

Init == /\ stack = << [k |-> "hdr", want |-> "any"] >> /\ bytes = <<>> /\ alloc = 0 /\ status = "run" /\ nreads = 0

(* the input ends inside the next field: every binary.Read returns an error *)
EndOfInput == /\ status = "run" /\ Len(stack) > 0
              /\ \E cut \in {0, 1, 3} : bytes' = bytes \o SubSeq(<<1, 0, 0>>, 1, cut)
              /\ status' = "err" /\ UNCHANGED <<stack, alloc, nreads>>

Done == /\ status = "run" /\ Len(stack) = 0 /\ status' = "ok" /\ UNCHANGED <<stack, bytes, alloc, nreads>>

TypeName(c) == CASE c = 1 -> "Point" [] c = 2 -> "LineString" [] c = 3 -> "Polygon" [] c = 4 -> "MultiPoint"
                 [] c = 5 -> "MultiLineString" [] c = 6 -> "MultiPolygon" [] c = 7 -> "GeometryCollection" [] OTHER -> "bad"

(* Read(): byte-order flag and type code, then dispatch *)
ReadHeader ==
    /\ status = "run" /\ Len(stack) > 0 /\ Top.k = "hdr" /\ nreads < MaxReads
    /\ \E bo \in {0, 1, 2}, ty \in {1, 2, 3, 4, 5, 6, 7, 9} :
         /\ bytes' = bytes \o <<bo>> \o U32(ty, IF bo = 2 THEN 0 ELSE bo)
         /\ nreads' = nreads + 1 /\ UNCHANGED alloc
         /\ IF bo = 2 \/ ty = 9 \/ (Top.want # "any" /\ TypeName(ty) # Top.want) \/ (ty = 7 /\ Len(stack) > MaxDepth)
            THEN status' = "err" /\ UNCHANGED stack
            ELSE /\ status' = "run"
                 /\ stack' = Pop \o << IF ty = 1 THEN [k |-> "pts", rem |-> 1, bo |-> bo, counted |-> FALSE]
                                       ELSE [k |-> "cnt", of |-> TypeName(ty), bo |-> bo] >>

(* a count header *)
ReadCount ==
    /\ status = "run" /\ Len(stack) > 0 /\ Top.k = "cnt" /\ nreads < MaxReads
    /\ \E n \in Counts :
         /\ bytes' = bytes \o CountBytes(n, Top.bo) /\ nreads' = nreads + 1 /\ status' = "run"
         /\ CASE Top.of = "LineString" ->
                    /\ stack' = Pop \o Fr([k |-> "pts", rem |-> n, bo |-> Top.bo, counted |-> TRUE])
                    /\ alloc' = alloc + 2 * 16 * MinI(n, Chunk)               \* chunk buffer + result capacity
              [] Top.of = "Polygon" -> stack' = Pop \o Fr([k |-> "rings", rem |-> n, bo |-> Top.bo]) /\ alloc' = alloc + 24 * MinI(n, MemberHint)
              [] Top.of = "MultiPoint" -> stack' = Pop \o Fr([k |-> "mem", rem |-> n, want |-> "Point"]) /\ alloc' = alloc + 24 * MinI(n, MemberHint)
              [] Top.of = "MultiLineString" -> stack' = Pop \o Fr([k |-> "mem", rem |-> n, want |-> "LineString"]) /\ alloc' = alloc + 24 * MinI(n, MemberHint)
              [] Top.of = "MultiPolygon" -> stack' = Pop \o Fr([k |-> "mem", rem |-> n, want |-> "Polygon"]) /\ alloc' = alloc + 24 * MinI(n, MemberHint)
              [] Top.of = "GeometryCollection" -> stack' = Pop \o Fr([k |-> "mem", rem |-> n, want |-> "any"]) /\ alloc' = alloc + 24 * MinI(n, MemberHint)
              [] Top.of = "Ring" ->
                    /\ stack' = Pop \o Fr([k |-> "pts", rem |-> n, bo |-> Top.bo, counted |-> TRUE])
                    /\ alloc' = alloc + 2 * 16 * MinI(n, Chunk)

(* one point of payload (16 bytes present) *)
ReadPoint ==
    /\ status = "run" /\ Len(stack) > 0 /\ Top.k = "pts" /\ nreads < MaxReads
    /\ bytes' = bytes \o PtB(PtK(nreads), Top.bo)
    /\ alloc' = alloc + 32
    /\ stack' = Pop \o Fr([Top EXCEPT !.rem = Top.rem - 1])
    /\ nreads' = nreads + 1
    /\ status' = "run"

(* the next ring / member of a counted sequence: the slice grows by appending *)
NextRing ==
    /\ status = "run" /\ Len(stack) > 0 /\ Top.k = "rings"
    /\ stack' = Pop \o Fr([Top EXCEPT !.rem = Top.rem - 1]) \o << [k |-> "cnt", of |-> "Ring", bo |-> Top.bo] >>
    /\ alloc' = alloc + 48
    /\ UNCHANGED <<bytes, status, nreads>>
NextMember ==
    /\ status = "run" /\ Len(stack) > 0 /\ Top.k = "mem"
    /\ stack' = Pop \o Fr([Top EXCEPT !.rem = Top.rem - 1]) \o << [k |-> "hdr", want |-> Top.want] >>
    /\ alloc' = alloc + 48
    /\ UNCHANGED <<bytes, status, nreads>>

Next == ReadHeader \/ ReadCount \/ ReadPoint \/ NextRing \/ NextMember \/ EndOfInput \/ Done
Spec == Init /\ [][Next]_vars /\ WF_vars(Next)

(* R1 on the automaton *)
AllocBound == alloc <= 64 * Len(bytes) + 1048576
Total == <>(status \in {"ok", "err"})                       \* every input is answered
(* the automaton agrees with the reference decoder on the input it has described *)
AgreesWithReference == (status = "ok" => DecBytes(bytes).ok) /\ (status = "err" /\ nreads < MaxReads => ~DecBytes(bytes).ok)
=============================================================================

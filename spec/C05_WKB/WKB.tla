--------------------------------- MODULE WKB ---------------------------------
(* C05 / C07 - OGC simple-features well-known binary, at the level of bytes.  *)
(*                                                                          *)
(* A coordinate is the 8-tuple of bytes of its IEEE-754 bit pattern in       *)
(* big-endian order, so "bit-identical" is plain equality and TLC never has  *)
(* to know what a float is.  Geometries are the GeomVal trees with such      *)
(* coordinates.                                                              *)
(*   EncBytes(g, bo)      the byte string an OGC serializer produces          *)
(*   EncPat(g, pat, ..)   the same with byte orders mixed per nested element  *)
(*   DecBytes(bs)         a complete reference decoder on concrete bytes:     *)
(*                        [ok, g, pos]; accepts either byte order at any      *)
(*                        depth, rejects unknown byte-order flags and type    *)
(*                        codes, wrong member types and truncated input       *)
EXTENDS Integers, Sequences, SequencesExt

G(t, m) == [t |-> t, m |-> m]
TypeCode(t) == CASE t = "Point" -> 1 [] t = "LineString" -> 2 [] t = "Polygon" -> 3 [] t = "MultiPoint" -> 4
                 [] t = "MultiLineString" -> 5 [] t = "MultiPolygon" -> 6 [] t = "GeometryCollection" -> 7

(* ------------------------------------------------------------------ encoding *)
Rev(s) == [i \in 1..Len(s) |-> s[Len(s) + 1 - i]]
U32(n, bo) == LET b == <<n \div 16777216, (n \div 65536) % 256, (n \div 256) % 256, n % 256>>
              IN IF bo = 0 THEN b ELSE Rev(b)
F64(c, bo) == IF bo = 0 THEN c ELSE Rev(c)
PtB(p, bo) == F64(p[1], bo) \o F64(p[2], bo)
PtsB(ps, bo) == U32(Len(ps), bo) \o FlattenSeq([i \in DOMAIN ps |-> PtB(ps[i], bo)])
PtssB(pss, bo) == U32(Len(pss), bo) \o FlattenSeq([i \in DOMAIN pss |-> PtsB(pss[i], bo)])

(* byte order of the element at nesting depth d, position i: pat = <<base, a, b>> *)
BoOf(pat, d, i) == (pat[1] + pat[2] * d + pat[3] * i) % 2

RECURSIVE EncPat(_, _, _, _)
EncPat(g, pat, d, i) ==
    LET bo == BoOf(pat, d, i)
        sub(t, ms) == U32(Len(ms), bo) \o FlattenSeq([k \in DOMAIN ms |-> EncPat(G(t, ms[k]), pat, d + 1, k)])
    IN <<bo>> \o U32(TypeCode(g.t), bo) \o
       CASE g.t = "Point" -> PtB(g.m, bo)
         [] g.t = "LineString" -> PtsB(g.m, bo)
         [] g.t = "Polygon" -> PtssB(g.m, bo)
         [] g.t = "MultiPoint" -> sub("Point", g.m)
         [] g.t = "MultiLineString" -> sub("LineString", g.m)
         [] g.t = "MultiPolygon" -> sub("Polygon", g.m)
         [] g.t = "GeometryCollection" ->
               U32(Len(g.m), bo) \o FlattenSeq([k \in DOMAIN g.m |-> EncPat(g.m[k], pat, d + 1, k)])
EncBytes(g, bo) == EncPat(g, <<bo, 0, 0>>, 0, 0)

(* lower-case hexadecimal text of a byte string, as a sequence of digit values 0..15 *)
HexDigits(bs) == FlattenSeq([i \in DOMAIN bs |-> <<bs[i] \div 16, bs[i] % 16>>])

(* ------------------------------------------------------------------ reference decoder *)
Fail == [ok |-> FALSE, g |-> 0, pos |-> 0]
OkR(g, pos) == [ok |-> TRUE, g |-> g, pos |-> pos]
MaxCount == 2147483647
(* u32 at pos (1-based) in byte order bo; counts >= 2^31 are clamped (they cannot be satisfied by any input) *)
RdU32(bs, pos, bo) ==
    LET b == IF bo = 0 THEN <<bs[pos], bs[pos + 1], bs[pos + 2], bs[pos + 3]>>
                        ELSE <<bs[pos + 3], bs[pos + 2], bs[pos + 1], bs[pos]>>
    IN IF b[1] >= 128 THEN MaxCount ELSE b[1] * 16777216 + b[2] * 65536 + b[3] * 256 + b[4]
RdF64(bs, pos, bo) == LET c == SubSeq(bs, pos, pos + 7) IN IF bo = 0 THEN c ELSE Rev(c)

RdPoint(bs, pos, bo) == IF pos + 15 > Len(bs) THEN Fail
                        ELSE OkR(<<RdF64(bs, pos, bo), RdF64(bs, pos + 8, bo)>>, pos + 16)
RECURSIVE RdPointsN(_, _, _, _, _)
RdPointsN(bs, pos, bo, n, acc) ==
    IF n = 0 THEN OkR(acc, pos)
    ELSE LET r == RdPoint(bs, pos, bo) IN
         IF ~r.ok THEN Fail ELSE RdPointsN(bs, r.pos, bo, n - 1, Append(acc, r.g))
RdPoints(bs, pos, bo) == IF pos + 3 > Len(bs) THEN Fail
                         ELSE RdPointsN(bs, pos + 4, bo, RdU32(bs, pos, bo), <<>>)
RECURSIVE RdRingsN(_, _, _, _, _)
RdRingsN(bs, pos, bo, n, acc) ==
    IF n = 0 THEN OkR(acc, pos)
    ELSE LET r == RdPoints(bs, pos, bo) IN
         IF ~r.ok THEN Fail ELSE RdRingsN(bs, r.pos, bo, n - 1, Append(acc, r.g))

RECURSIVE Dec(_, _)
RECURSIVE RdMembersN(_, _, _, _, _)
(* n complete geometries (each with its own header); want = required member type or "any" *)
RdMembersN(bs, pos, n, want, acc) ==
    IF n = 0 THEN OkR(acc, pos)
    ELSE LET r == Dec(bs, pos) IN
         IF ~r.ok \/ (want # "any" /\ r.g.t # want) THEN Fail
         ELSE RdMembersN(bs, r.pos, n - 1, want, Append(acc, IF want = "any" THEN r.g ELSE r.g.m))

Dec(bs, pos) ==
    IF pos + 4 > Len(bs) \/ bs[pos] \notin {0, 1} THEN Fail
    ELSE LET bo == bs[pos]
             ty == RdU32(bs, pos + 1, bo)
             body == pos + 5
             counted(want, t) == IF body + 3 > Len(bs) THEN Fail
                                 ELSE LET r == RdMembersN(bs, body + 4, RdU32(bs, body, bo), want, <<>>)
                                      IN IF r.ok THEN OkR(G(t, r.g), r.pos) ELSE Fail
         IN CASE ty = 1 -> LET r == RdPoint(bs, body, bo) IN IF r.ok THEN OkR(G("Point", r.g), r.pos) ELSE Fail
              [] ty = 2 -> LET r == RdPoints(bs, body, bo) IN IF r.ok THEN OkR(G("LineString", r.g), r.pos) ELSE Fail
              [] ty = 3 -> IF body + 3 > Len(bs) THEN Fail
                           ELSE LET r == RdRingsN(bs, body + 4, bo, RdU32(bs, body, bo), <<>>)
                                IN IF r.ok THEN OkR(G("Polygon", r.g), r.pos) ELSE Fail
              [] ty = 4 -> counted("Point", "MultiPoint")
              [] ty = 5 -> counted("LineString", "MultiLineString")
              [] ty = 6 -> counted("Polygon", "MultiPolygon")
              [] ty = 7 -> counted("any", "GeometryCollection")
              [] OTHER -> Fail
DecBytes(bs) == Dec(bs, 1)

(* ------------------------------------------------------------------ coordinate pool and case universe *)
(* eight adversarial float64 bit patterns, big-endian bytes *)
Pool == << <<127, 248, 0, 0, 0, 0, 0, 0>>,          \* quiet NaN
           <<127, 240, 0, 0, 0, 0, 0, 1>>,          \* signalling NaN, payload 1
           <<255, 248, 0, 0, 222, 173, 190, 239>>,  \* negative quiet NaN with payload
           <<0, 0, 0, 0, 0, 0, 0, 0>>,              \* +0
           <<128, 0, 0, 0, 0, 0, 0, 0>>,            \* -0
           <<127, 240, 0, 0, 0, 0, 0, 0>>,          \* +Inf
           <<63, 185, 153, 153, 153, 153, 153, 154>>,  \* 0.1 (17 significant digits)
           <<0, 0, 0, 0, 0, 0, 0, 1>> >>            \* smallest subnormal
PtK(k) == <<Pool[(k % 8) + 1], Pool[((3 * k + 1) % 8) + 1]>>
PathK(base, n) == [q \in 1..n |-> PtK(base + q)]
Vecs(maxlen, S) == UNION {[1..n -> S] : n \in 0..maxlen}
RECURSIVE SumTo(_, _)
SumTo(v, n) == IF n = 0 THEN 0 ELSE SumTo(v, n - 1) + v[n]
PathsK(base, v) == [r \in DOMAIN v |-> PathK(base + SumTo(v, r - 1), v[r])]

Leaves(L) == {G("Point", PtK(1))}
             \cup {G("LineString", PathK(0, n)) : n \in 0..2} \cup {G("MultiPoint", PathK(3, n)) : n \in 0..2}
             \cup {G(t, PathsK(1, v)) : t \in {"Polygon", "MultiLineString"}, v \in Vecs(L, {0, 1, 2})}
             \cup {G("MultiPolygon", [p \in DOMAIN vv |-> PathsK(2 * p, vv[p])]) : vv \in Vecs(2, Vecs(2, {0, 1}))}
(* consecutive equal vertices (a doubled vertex, a line standing still, +0 followed by -0: equal as numbers, not as bits) are
   part of the geometry *)
Zp == <<Pool[4], Pool[4]>>
Zm == <<Pool[5], Pool[4]>>
DupLeaves == {G("LineString", <<PtK(2), PtK(2)>>), G("LineString", <<PtK(1), PtK(2), PtK(2)>>), G("LineString", <<PtK(2), PtK(2), PtK(3)>>),
              G("LineString", <<Zp, Zm>>), G("LineString", <<Zm, Zp, PtK(1)>>), G("MultiPoint", <<PtK(2), PtK(2)>>), G("MultiPoint", <<Zp, Zm>>),
              G("MultiLineString", << <<PtK(1), PtK(1)>>, <<Zm, Zp>> >>), G("Polygon", << <<PtK(1), PtK(1), PtK(2), PtK(2)>>, <<Zp, Zm, Zp>> >>),
              G("MultiPolygon", << << <<PtK(3), PtK(3)>> >>, << <<Zp, Zm>>, <<PtK(2), PtK(2), PtK(2)>> >> >>),
              G("GeometryCollection", << G("LineString", <<Zp, Zm>>), G("LineString", <<PtK(2), PtK(2)>>) >>)}
Catalog == << G("Point", PtK(5)), G("LineString", <<>>), G("Polygon", PathsK(2, <<0, 2>>)), G("MultiPoint", PathK(1, 1)),
              G("MultiPolygon", << PathsK(4, <<1>>) >>), G("GeometryCollection", <<>>),
              G("GeometryCollection", << G("Point", PtK(7)), G("GeometryCollection", << G("LineString", PathK(6, 1)) >>) >>) >>
Collections(LG) == {G("GeometryCollection", [i \in DOMAIN s |-> Catalog[s[i]]]) : s \in Vecs(LG, DOMAIN Catalog)}
Geoms(L, LG) == Leaves(L) \cup DupLeaves \cup Collections(LG)

(* deep elements: a leaf wrapped in d one-member collections ("collections nested to any depth") *)
RECURSIVE DeepG(_, _)
DeepG(g, d) == IF d = 0 THEN g ELSE G("GeometryCollection", <<DeepG(g, d - 1)>>)

(* wide elements: member counts around an implementation's allocation hints and around the byte boundaries of the
   32-bit count field; alone and as a collection member that is followed by another member *)
Ones(n) == [i \in 1..n |-> 1]
WideOf(n) == { G("LineString", PathK(0, n)), G("MultiPoint", PathK(1, n)), G("Polygon", PathsK(1, Ones(n))),
               G("MultiLineString", PathsK(2, Ones(n))), G("MultiPolygon", [p \in 1..n |-> PathsK(p, <<1>>)]),
               G("GeometryCollection", [i \in 1..n |-> G("Point", PtK(i))]) }
(* long point arrays repeat the pool with period 35, which shares no factor with a power-of-two buffer size *)
PtL(k) == <<Pool[(k % 7) + 1], Pool[((3 * k + 1) % 5) + 1]>>
PathL(n) == [q \in 1..n |-> PtL(q)]
Wide(NS, NB) == LET W == UNION {WideOf(n) : n \in NS} \cup {G("LineString", PathL(n)) : n \in NB} \cup {G("Polygon", <<PathL(n)>>) : n \in NB}
                IN W \cup {G("GeometryCollection", <<w, G("Point", PtK(3))>>) : w \in W}
=============================================================================

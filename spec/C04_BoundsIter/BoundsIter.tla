----------------------------- MODULE BoundsIter -----------------------------
(* C04 - Bounds are tight envelopes, vertex enumeration is complete and     *)
(* ordered, box algebra (Extend / Overlaps / Intersection / Empty / Copy).  *)
(*                                                                          *)
(* R1 (oracle): Flatten, BoundsOf, Join, BoxOverlap, BoxMeet.               *)
(* R2 (model) : the closure iterators of geom as state machines with the    *)
(*              code's own index variables; one NextPt action per call.     *)
(* Coordinates are integers; PInf / NInf stand for the two infinities and   *)
(* NegZero for IEEE -0 (numerically equal to 0).                            *)
EXTENDS GeomVal, FiniteSets, TLC

PInf == 1000
NInf == -1000
NegZero == 7777
Val(c) == IF c = NegZero THEN 0 ELSE c

MinS(S) == CHOOSE x \in S : \A y \in S : x <= y
MaxS(S) == CHOOSE x \in S : \A y \in S : x >= y

(* ------------------------------------------------------------------ R1 *)
EmptyBox == << <<PInf, PInf>>, <<NInf, NInf>> >>

BoundsOf(pts) ==
    IF pts = <<>> THEN EmptyBox
    ELSE LET xs == {Val(pts[i][1]) : i \in DOMAIN pts}
             ys == {Val(pts[i][2]) : i \in DOMAIN pts}
         IN << <<MinS(xs), MinS(ys)>>, <<MaxS(xs), MaxS(ys)>> >>

BoxEmpty(b) == b[2][1] < b[1][1] \/ b[2][2] < b[1][2]

(* well-formed operand of the box algebra: the canonical empty box or min <= max *)
BoxWF(b) == b = EmptyBox \/ ~BoxEmpty(b)

Lo(a, b) == IF a <= b THEN a ELSE b
Hi(a, b) == IF a >= b THEN a ELSE b

(* lattice join: smallest box containing both; the empty box is neutral *)
Join(a, b) == IF BoxEmpty(b) THEN a
              ELSE IF BoxEmpty(a) THEN b
              ELSE << <<Lo(a[1][1], b[1][1]), Lo(a[1][2], b[1][2])>>,
                      <<Hi(a[2][1], b[2][1]), Hi(a[2][2], b[2][2])>> >>

(* closed boxes share a point *)
BoxOverlap(a, b) == /\ ~BoxEmpty(a) /\ ~BoxEmpty(b)
                    /\ a[1][1] <= b[2][1] /\ b[1][1] <= a[2][1]
                    /\ a[1][2] <= b[2][2] /\ b[1][2] <= a[2][2]

(* <<common rectangle>>, or <<>> when the boxes share no area *)
BoxMeet(a, b) ==
    LET lox == Hi(a[1][1], b[1][1])  loy == Hi(a[1][2], b[1][2])
        hix == Lo(a[2][1], b[2][1])  hiy == Lo(a[2][2], b[2][2])
    IN IF BoxEmpty(a) \/ BoxEmpty(b) \/ lox >= hix \/ loy >= hiy THEN <<>>
       ELSE << << <<lox, loy>>, <<hix, hiy>> >> >>

(* Bounds() of a geometry: for a *Bounds receiver it is the receiver itself *)
TrueBounds(g) == IF g.t = "Bounds" THEN g.m ELSE BoundsOf(Flatten(g))

(* ------------------------------------------------------------------ R2 *)
(* Iterator state per type, initial value and one call.  A call returns     *)
(* [st |-> new state, pt |-> vertex, oob |-> index left its range (panic)]. *)
NoPt == <<0, 0>>
Ret(st, pt, oob) == [st |-> st, pt |-> pt, oob |-> oob]

RECURSIVE IterInit(_)
IterInit(g) ==
    CASE g.t = "Point" -> 0
      [] g.t \in {"MultiPoint", "LineString", "Bounds"} -> 0
      [] g.t \in {"MultiLineString", "Polygon"} -> <<0, 1>>            \* i, j
      [] g.t = "MultiPolygon" -> <<0, 1, 1>>                          \* i, j, k
      [] g.t = "GeometryCollection" -> [i |-> 0, j |-> 1, sub |-> <<>>, made |-> FALSE]

(* polygon.go / multilinestring.go: for i == len(p[j]) { j++; i = 0 } *)
RECURSIVE Skip2(_, _, _)
Skip2(m, i, j) == IF j > Len(m) THEN <<i, j, TRUE>>
                  ELSE IF i = Len(m[j]) THEN Skip2(m, 0, j + 1)
                  ELSE <<i, j, FALSE>>

(* multipolygon.go: skip exhausted rings and polygons (also empty polygons) *)
RECURSIVE Skip3(_, _, _, _)
Skip3(m, i, j, k) ==
    IF k > Len(m) THEN <<i, j, k, TRUE>>
    ELSE IF j > Len(m[k]) THEN Skip3(m, 0, 1, k + 1)
    ELSE IF i = Len(m[k][j]) THEN Skip3(m, 0, j + 1, k)
    ELSE <<i, j, k, FALSE>>

RECURSIVE IterCall(_, _)
(* geometrycollection.go: advance to the next member while the current one is exhausted *)
RECURSIVE GCSkip(_, _)
GCSkip(g, st) ==
    IF st.j > Len(g.m) THEN [st EXCEPT !.made = FALSE]                   \* caller flags oob
    ELSE IF ~st.made THEN GCSkip(g, [st EXCEPT !.sub = IterInit(g.m[st.j]), !.made = TRUE, !.i = 0])
    ELSE IF st.i = GLen(g.m[st.j]) THEN GCSkip(g, [st EXCEPT !.j = st.j + 1, !.made = FALSE])
    ELSE st

IterCall(g, st) ==
    CASE g.t = "Point" -> Ret(st, g.m, FALSE)
      [] g.t \in {"MultiPoint", "LineString"} ->
            IF st + 1 > Len(g.m) THEN Ret(st + 1, NoPt, TRUE) ELSE Ret(st + 1, g.m[st + 1], FALSE)
      [] g.t = "Bounds" ->
            IF st >= 4 THEN Ret(st + 1, NoPt, TRUE) ELSE Ret(st + 1, BoxCorners(g.m)[st + 1], FALSE)
      [] g.t \in {"MultiLineString", "Polygon"} ->
            LET s == Skip2(g.m, st[1], st[2]) IN
            IF s[3] THEN Ret(<<s[1], s[2]>>, NoPt, TRUE)
            ELSE Ret(<<s[1] + 1, s[2]>>, g.m[s[2]][s[1] + 1], FALSE)
      [] g.t = "MultiPolygon" ->
            LET s == Skip3(g.m, st[1], st[2], st[3]) IN
            IF s[4] THEN Ret(<<s[1], s[2], s[3]>>, NoPt, TRUE)
            ELSE Ret(<<s[1] + 1, s[2], s[3]>>, g.m[s[3]][s[2]][s[1] + 1], FALSE)
      [] g.t = "GeometryCollection" ->
            LET s == GCSkip(g, st) IN
            IF s.j > Len(g.m) THEN Ret(s, NoPt, TRUE)
            ELSE LET r == IterCall(g.m[s.j], s.sub) IN
                 Ret([s EXCEPT !.i = s.i + 1, !.sub = r.st], r.pt, r.oob)

(* ------------------------------------------------------------------ case universe *)
Pool == <<NInf, -2, NegZero, 0, 1, PInf>>
Pats == << <<1, 0, 1, 3>>, <<5, 2, 1, 0>>, <<2, 1, 3, 2>> >>
Pt(pat, k) == << Pool[((pat[1] * k + pat[2]) % 6) + 1], Pool[((pat[3] * k + pat[4]) % 6) + 1] >>

RECURSIVE SumTo(_, _)
SumTo(v, n) == IF n = 0 THEN 0 ELSE SumTo(v, n - 1) + v[n]
Sum(v) == SumTo(v, Len(v))

Path(pat, base, n) == [q \in 1..n |-> Pt(pat, base + q)]
Paths(pat, base, v) == [r \in DOMAIN v |-> Path(pat, base + SumTo(v, r - 1), v[r])]
Polys(pat, vv) == LET tot == [p \in DOMAIN vv |-> Sum(vv[p])]
                  IN [p \in DOMAIN vv |-> Paths(pat, SumTo(tot, p - 1), vv[p])]

Vecs(maxlen, S) == UNION {[1..n -> S] : n \in 0..maxlen}

G(t, m) == [t |-> t, m |-> m]

Catalog(pat) == <<
    G("Point", Pt(pat, 1)),
    G("MultiPoint", <<>>), G("MultiPoint", Path(pat, 2, 2)),
    G("LineString", <<>>), G("LineString", Path(pat, 4, 2)),
    G("Polygon", <<>>), G("Polygon", << <<>> >>), G("Polygon", Paths(pat, 1, <<0, 0, 2>>)),
    G("MultiLineString", Paths(pat, 3, <<0, 1>>)),
    G("MultiPolygon", <<>>), G("MultiPolygon", Polys(pat, << <<>>, <<0, 1>> >>)),
    G("GeometryCollection", <<>>),
    G("GeometryCollection", << G("Point", Pt(pat, 5)), G("LineString", <<>>) >>),
    G("GeometryCollection", << G("GeometryCollection", <<>>), G("Polygon", Paths(pat, 2, <<0, 1>>)) >>),
    G("Bounds", << <<-2, 0>>, <<1, 1>> >>) >>

GeomCases(L2, L3o, L3i, LG) ==
    UNION { {G("Point", Pt(pat, 1))}
            \cup {G(t, Path(pat, 0, n)) : t \in {"MultiPoint", "LineString"}, n \in 0..3}
            \cup {G(t, Paths(pat, 0, v)) : t \in {"MultiLineString", "Polygon"}, v \in Vecs(L2, {0, 1, 2})}
            \cup {G("MultiPolygon", Polys(pat, vv)) : vv \in Vecs(L3o, Vecs(L3i, {0, 1, 2}))}
            \cup {G("GeometryCollection", [i \in DOMAIN s |-> Catalog(pat)[s[i]]]) :
                     s \in Vecs(LG, DOMAIN Catalog(pat))}
            \cup {G("Bounds", << <<-2, NegZero>>, <<1, PInf>> >>), G("Bounds", EmptyBox)}
          : pat \in {Pats[i] : i \in DOMAIN Pats} }

BoxCoords == {0, 1, 2, 3}
Boxes == {EmptyBox} \cup { << <<x1, y1>>, <<x2, y2>> >> :
                             x1 \in BoxCoords, y1 \in BoxCoords, x2 \in BoxCoords, y2 \in BoxCoords }
WFBoxes == {b \in Boxes : BoxWF(b)}

(* ------------------------------------------------------------------ R2 |= R1 (exhaustive) *)
CONSTANTS L2, L3o, L3i, LG
VARIABLES g, st, n, out, oob
vars == <<g, st, n, out, oob>>

Init == /\ g \in GeomCases(L2, L3o, L3i, LG)
        /\ st = IterInit(g) /\ n = 0 /\ out = NoPt /\ oob = FALSE

NextPt == /\ n < GLen(g) /\ ~oob
          /\ LET r == IterCall(g, st) IN
             st' = r.st /\ out' = r.pt /\ oob' = r.oob
          /\ n' = n + 1 /\ UNCHANGED g

Spec == Init /\ [][NextPt]_vars

IterOK == /\ ~oob
          /\ n > 0 => out = Flatten(g)[n]

(* box algebra laws of R1 itself (sanity of the oracle) *)
JoinLaws == \A a \in WFBoxes, b \in WFBoxes :
              /\ Join(a, b) = Join(b, a)
              /\ Join(a, a) = a
              /\ Join(a, EmptyBox) = a
              /\ BoxOverlap(a, b) = BoxOverlap(b, a)
              /\ (BoxMeet(a, b) # <<>> => BoxOverlap(a, b))
ASSUME JoinLaws
=============================================================================

--------------------------- MODULE BoundsIterTrace ---------------------------
(* Trace specification for C04: every recording of the real code is checked *)
(* against R1 of BoundsIter.  Events of a "geom" recording: len, bounds,    *)
(* points; of a "box2"/"box3" recording: one event with all results.        *)
EXTENDS BoundsIter, TraceIO

VARIABLE cs     \* the case record of the current recording (from the reset line)

NumPt(p) == <<Val(p[1]), Val(p[2])>>
NumBox(b) == <<NumPt(b[1]), NumPt(b[2])>>

GeomOk(e) ==
    CASE e.ev = "len"    -> e.out = "ok" /\ e.n = GLen(cs.g)
      [] e.ev = "bounds" -> e.out = "ok" /\ e.box = NumBox(TrueBounds(cs.g))
                                         /\ e.empty = (GLen(cs.g) = 0 \/ (cs.g.t = "Bounds" /\ BoxEmpty(NumBox(cs.g.m))))
      [] e.ev = "points" -> e.out = "ok" /\ e.pts = Flatten(cs.g)
      [] OTHER -> FALSE

Box2Ok(e) ==
    /\ e.ev = "box2" /\ e.out = "ok"
    /\ e.ext = Join(cs.a, cs.b)
    /\ e.ovl = BoxOverlap(cs.a, cs.b)
    /\ e.isect = BoxMeet(cs.a, cs.b)
    /\ e.emptya = BoxEmpty(cs.a)
    /\ e.copya = cs.a
    /\ e.aafter = cs.a /\ e.bafter = cs.b          \* Overlaps/Intersection/Copy/Empty do not modify operands

Box3Ok(e) ==
    /\ e.ev = "box3" /\ e.out = "ok"
    /\ e.ext1 = Join(Join(cs.a, cs.b), cs.c)        \* (a v b) v c
    /\ e.ext2 = Join(cs.a, Join(cs.b, cs.c))        \* a v (b v c)
    /\ LET ab == BoxMeet(cs.a, cs.b) IN
       e.isect = IF ab = <<>> THEN <<>> ELSE BoxMeet(ab[1], cs.c)

(* Extend by a box that holds no point (Max < Min on some axis, not necessarily the canonical empty box) is the identity *)
BoxExtOk(e) ==
    /\ e.ev = "boxext" /\ e.out = "ok"
    /\ e.emptyb = TRUE
    /\ e.ext = Join(cs.a, cs.b) /\ e.ext = NumBox(cs.a)
    /\ e.bafter = cs.b

Ok(e) == CASE cs.kind = "geom" -> GeomOk(e)
           [] cs.kind = "box2" -> Box2Ok(e)
           [] cs.kind = "box3" -> Box3Ok(e)
           [] cs.kind = "boxext" -> BoxExtOk(e)
           [] OTHER -> FALSE

Apply(e) == UNCHANGED cs
Reset(e) == cs' = e
Keep == UNCHANGED cs

TraceInit == TInit /\ cs = [kind |-> "none"] /\ g = 0 /\ st = 0 /\ n = 0 /\ out = 0 /\ oob = FALSE
TraceNext == TStep(Ok, Apply, Reset, Keep) /\ UNCHANGED vars
TraceSpec == TraceInit /\ [][TraceNext]_<<vars, cs, l, fails>>
=============================================================================

---------------------------- MODULE BoundsIterGen ----------------------------
(* Case generator for C04: every case of the universe of BoundsIter is one  *)
(* initial state; TLC prints it as JSON and the runner collects the lines.  *)
EXTENDS BoundsIter, Json

CONSTANTS TripleCoords      \* coordinate set for box triples ({} = no triples)
VARIABLE c

TBoxes == {EmptyBox} \cup {b \in { << <<x1, y1>>, <<x2, y2>> >> :
                x1 \in TripleCoords, y1 \in TripleCoords, x2 \in TripleCoords, y2 \in TripleCoords } : BoxWF(b)}

CaseSet == [kind : {"geom"}, g : GeomCases(L2, L3o, L3i, LG)]
           \cup [kind : {"box2"}, a : WFBoxes, b : WFBoxes]
           \cup [kind : {"boxext"}, a : WFBoxes, b : {x \in Boxes : BoxEmpty(x) /\ x # EmptyBox}]   \* Extend by any box Empty() calls empty
           \cup (IF TripleCoords = {} THEN {} ELSE [kind : {"box3"}, a : TBoxes, b : TBoxes, c : TBoxes])

GenInit == /\ g = 0 /\ st = 0 /\ n = 0 /\ out = 0 /\ oob = FALSE
           /\ c \in CaseSet
           /\ PrintT(ToJson(c))
GenSpec == GenInit /\ [][UNCHANGED <<vars, c>>]_<<vars, c>>
=============================================================================

---------------------------- MODULE BoundsIterGen ----------------------------
(* Case generator for C04: every case of the universe of BoundsIter is one  *)
(* initial state; TLC prints it as JSON and the runner collects the lines.  *)
EXTENDS BoundsIter, Json

CONSTANTS TripleCoords,     \* coordinate set for box triples ({} = no triples)
          InfThin           \* thinning of the pairs of infinite boxes
VARIABLE c

TBoxes == {EmptyBox} \cup {b \in { << <<x1, y1>>, <<x2, y2>> >> :
                x1 \in TripleCoords, y1 \in TripleCoords, x2 \in TripleCoords, y2 \in TripleCoords } : BoxWF(b)}

(* boxes reaching to infinity (bounds of geometries with infinite coordinates, half planes, degenerate boxes at infinity) *)
InfCoords == {NInf, 0, 2, PInf}
InfBoxes == {b \in { << <<x1, y1>>, <<x2, y2>> >> : x1 \in InfCoords, y1 \in InfCoords, x2 \in InfCoords, y2 \in InfCoords } :
               b[1][1] <= b[2][1] /\ b[1][2] <= b[2][2] /\ \E i \in 1..2, j \in 1..2 : b[i][j] \in {NInf, PInf}}
FullPlane == << <<NInf, NInf>>, <<PInf, PInf>> >>
BoxHash(b) == (b[1][1] * 3 + b[1][2] * 5 + b[2][1] * 7 + b[2][2] * 11) % 1009
InfPairs == {p \in InfBoxes \X (InfBoxes \cup WFBoxes) : (BoxHash(p[1]) + 13 * BoxHash(p[2])) % InfThin = 0}

CaseSet == [kind : {"geom"}, g : GeomCases(L2, L3o, L3i, LG)]
           \cup [kind : {"box2"}, a : WFBoxes, b : WFBoxes]
           \cup {[kind |-> "box2", a |-> p[1], b |-> p[2]] : p \in InfPairs} \cup {[kind |-> "box2", a |-> p[2], b |-> p[1]] : p \in InfPairs}
           \cup {[kind |-> "box2", a |-> EmptyBox, b |-> FullPlane], [kind |-> "box2", a |-> FullPlane, b |-> EmptyBox],
                 [kind |-> "box2", a |-> FullPlane, b |-> FullPlane]}          \* the empty box shares no point even with the whole plane
           \cup [kind : {"boxext"}, a : WFBoxes, b : {x \in Boxes : BoxEmpty(x) /\ x # EmptyBox}]   \* Extend by any box Empty() calls empty
           \cup (IF TripleCoords = {} THEN {} ELSE [kind : {"box3"}, a : TBoxes, b : TBoxes, c : TBoxes])

GenInit == /\ g = 0 /\ st = 0 /\ n = 0 /\ out = 0 /\ oob = FALSE
           /\ c \in CaseSet
           /\ PrintT(ToJson(c))
GenSpec == GenInit /\ [][UNCHANGED <<vars, c>>]_<<vars, c>>
=============================================================================

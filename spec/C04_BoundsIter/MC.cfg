SPECIFICATION Spec
INVARIANT IterOK
CONSTANTS
  L2 = 4
  L3o = 2
  L3i = 2
  LG = 2
CHECK_DEADLOCK FALSE

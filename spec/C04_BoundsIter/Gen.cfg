SPECIFICATION GenSpec
CONSTANTS
  L2 = 4
  L3o = 2
  L3i = 2
  LG = 2
  TripleCoords = {}
CHECK_DEADLOCK FALSE

SPECIFICATION GenSpec
CONSTANTS
  L2 = 4
  L3o = 2
  L3i = 2
  LG = 2
  TripleCoords = {}
  InfThin = 5
CHECK_DEADLOCK FALSE

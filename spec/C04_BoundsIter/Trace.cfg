SPECIFICATION TraceSpec
INVARIANT TReport
CONSTANTS
  L2 = 0
  L3o = 0
  L3i = 0
  LG = 0
CHECK_DEADLOCK FALSE

module verifharness

go 1.13

require (
	github.com/ctessum/geom v0.0.0
	github.com/jonas-p/go-shp v0.1.2-0.20190401125246-9fd306ae10a6
)

replace github.com/ctessum/geom => /repo

package main

import (
	"math/rand"

	"github.com/ctessum/geom"
	"github.com/ctessum/geom/op"
)

// X01 (extension family): op.FixOrientation / op.Within / op.PointOnSurface on lattice polygons.
func init() {
	families["x01"] = &Family{Run: runX01, Random: func(rng *rand.Rand, n int) []map[string]interface{} { return nil }}
}

func x01Polys(v interface{}) []geom.Polygon {
	var out []geom.Polygon
	for _, p := range arr(v) {
		out = append(out, decPolygon(p, intDec))
	}
	return out
}

func x01EncPolys(ps []geom.Polygon) []interface{} {
	out := make([]interface{}, len(ps))
	for i, p := range ps {
		rs := make([]interface{}, len(p))
		for j, r := range p {
			rs[j] = encIntPath(r)
		}
		out[i] = rs
	}
	return out
}

func errStr(err error) string {
	if err != nil {
		return err.Error()
	}
	return ""
}

func runX01(c map[string]interface{}) []Event {
	ps := x01Polys(c["spelled"])
	switch str(c["kind"]) {
	case "fix":
		e := Event{"ev": "fix", "after": []interface{}{}, "again": []interface{}{}, "err": ""}
		e["out"] = safely(func() {
			var g geom.Geom
			if len(ps) == 1 {
				g = ps[0]
			} else {
				g = geom.MultiPolygon(ps)
			}
			e["err"] = errStr(op.FixOrientation(g))
			e["after"] = x01EncPolys(ps)
			if err := op.FixOrientation(g); err != nil {
				e["err"] = "second: " + err.Error()
			}
			e["again"] = x01EncPolys(ps)
		})
		return []Event{e}
	case "within":
		n := num(c["n"])
		e := Event{"ev": "within", "ans": []interface{}{}, "err": ""}
		e["out"] = safely(func() {
			var ans []interface{}
			for x := -1; x <= 2*n+1; x++ {
				for y := -1; y <= 2*n+1; y++ {
					in, err := op.Within(geom.Point{X: float64(x) / 2, Y: float64(y) / 2}, ps[0])
					if err != nil {
						e["err"] = err.Error()
					}
					ans = append(ans, in)
				}
			}
			e["ans"] = ans
		})
		return []Event{e}
	case "pos":
		e := Event{"ev": "pos", "pt": []interface{}{codeBad, codeBad}, "first": false, "err": ""}
		e["out"] = safely(func() {
			p, err := op.PointOnSurface(ps[0])
			e["err"] = errStr(err)
			e["pt"] = scaledPt(p)
			e["first"] = p == ps[0][0][0]
		})
		return []Event{e}
	}
	return []Event{{"ev": "unknown"}}
}

package main

import (
	"bytes"
	"context"
	"fmt"
	"math/rand"

	"github.com/ctessum/geom"
	gosm "github.com/ctessum/geom/encoding/osm"
)

// X02 (extension family): (*Data).Geom(), DominantType and (*Data).CountTags on small documents extracted with KeepAll.
func init() {
	families["x02"] = &Family{Run: runX02, Random: func(rng *rand.Rand, n int) []map[string]interface{} { return nil }, Sandbox: true, DeadlineMS: 20000}
}

// node i lies at (i, i*i mod 11)
func (d *osmDoc) xmlCoords() []byte {
	var b bytes.Buffer
	b.WriteString("<?xml version=\"1.0\" encoding=\"UTF-8\"?>\n<osm version=\"0.6\" generator=\"verif\">\n")
	tag := func(o osmObj) string {
		if d.tag[o.key()] {
			return "<tag k=\"k\" v=\"v\"/>"
		}
		return "<tag k=\"other\" v=\"x\"/>"
	}
	for _, o := range d.order {
		switch o.kind {
		case 'n':
			fmt.Fprintf(&b, " <node id=\"%d\" lat=\"%d\" lon=\"%d\" version=\"1\">%s</node>\n", o.id, (o.id*o.id)%11, o.id, tag(o))
		case 'w':
			fmt.Fprintf(&b, " <way id=\"%d\" version=\"1\">", o.id)
			for _, m := range d.mem[o.key()] {
				fmt.Fprintf(&b, "<nd ref=\"%d\"/>", m.id)
			}
			fmt.Fprintf(&b, "%s</way>\n", tag(o))
		case 'r':
			fmt.Fprintf(&b, " <relation id=\"%d\" version=\"1\">", o.id)
			for _, m := range d.mem[o.key()] {
				t := map[byte]string{'n': "node", 'w': "way", 'r': "relation"}[m.kind]
				fmt.Fprintf(&b, "<member type=\"%s\" ref=\"%d\" role=\"\"/>", t, m.id)
			}
			fmt.Fprintf(&b, "%s</relation>\n", tag(o))
		}
	}
	b.WriteString("</osm>\n")
	return b.Bytes()
}

func x02Pts(ps []geom.Point) []interface{} {
	out := make([]interface{}, len(ps))
	for i, p := range ps {
		out[i] = []interface{}{floatToNum(p.X), floatToNum(p.Y)}
	}
	return out
}

func x02Geom(g geom.Geom) map[string]interface{} {
	G := func(t string, m interface{}) map[string]interface{} { return map[string]interface{}{"t": t, "m": m} }
	switch v := g.(type) {
	case geom.Point:
		return G("Point", []interface{}{floatToNum(v.X), floatToNum(v.Y)})
	case geom.MultiPoint:
		return G("MultiPoint", x02Pts(v))
	case geom.LineString:
		return G("LineString", x02Pts(v))
	case geom.MultiLineString:
		m := make([]interface{}, len(v))
		for i, l := range v {
			m[i] = x02Pts(l)
		}
		return G("MultiLineString", m)
	case geom.Polygon:
		m := make([]interface{}, len(v))
		for i, r := range v {
			m[i] = x02Pts(r)
		}
		return G("Polygon", m)
	case geom.GeometryCollection:
		m := make([]interface{}, len(v))
		for i, x := range v {
			m[i] = x02Geom(x)
		}
		return G("GeometryCollection", m)
	}
	return G(fmt.Sprintf("other:%T", g), []interface{}{})
}

func runX02(c map[string]interface{}) []Event {
	doc := parseDoc(c["doc"])
	e := Event{"ev": "osmgeom", "items": []interface{}{}, "dominant": "", "tagcounts": []interface{}{-1, -1, -1, -1}, "err": ""}
	e["out"] = safely(func() {
		data, err := gosm.ExtractXML(context.Background(), bytes.NewReader(doc.xmlCoords()), gosm.KeepAll(), true)
		if err != nil {
			e["err"] = "extract: " + err.Error()
			return
		}
		items, err := data.Geom()
		if err != nil {
			e["err"] = "geom: " + err.Error()
			return
		}
		out := make([]interface{}, len(items))
		for i, it := range items {
			has := false
			for _, v := range it.Tags["k"] {
				if v == "v" {
					has = true
				}
			}
			out[i] = map[string]interface{}{"g": x02Geom(it.Geom), "tag": has}
		}
		e["items"] = out
		dt, err := gosm.DominantType(items)
		if err != nil {
			e["err"] = "dominant: " + err.Error()
			return
		}
		e["dominant"] = map[gosm.GeomType]string{gosm.Point: "point", gosm.Line: "line", gosm.Poly: "poly"}[dt]
	})
	if e["out"] == "ok" {
		// CountTags in a second guarded call: a panic there must not hide the items
		e["tagout"] = safely(func() {
			data, err := gosm.ExtractXML(context.Background(), bytes.NewReader(doc.xmlCoords()), gosm.KeepAll(), true)
			if err != nil {
				return
			}
			counts := []interface{}{0, 0, 0, 0}
			for _, tc := range data.CountTags() {
				if tc.Key == "k" && tc.Value == "v" {
					counts = []interface{}{tc.ObjectCount[gosm.NodeType], tc.ObjectCount[gosm.ClosedWayType], tc.ObjectCount[gosm.OpenWayType], tc.ObjectCount[gosm.RelationType]}
				}
			}
			e["tagcounts"] = counts
		})
	}
	return []Event{e}
}

package main

import (
	"math"
	"math/rand"
	"reflect"

	"github.com/ctessum/geom"
)

// C13: Simplify on line strings, polygon rings and multi-geometries (sandboxed: a hang or a
// runaway allocation is recorded as an outcome).
func init() {
	families["c13"] = &Family{Run: runC13, Random: randomC13, Sandbox: true, DeadlineMS: 4000}
}

func encIntPath(ps []geom.Point) []interface{} {
	out := make([]interface{}, len(ps))
	for i, p := range ps {
		out[i] = []interface{}{floatToNum(p.X), floatToNum(p.Y)}
	}
	return out
}

func runC13(c map[string]interface{}) []Event {
	tol := math.Sqrt(float64(num(c["tol2"])))
	e := Event{"ev": "simplify", "res": []interface{}{}, "inputsame": false}
	switch str(c["kind"]) {
	case "line":
		l := geom.LineString(decPath(c["curve"], intDec))
		// optional magnitude shift: coordinates and tolerance times 2^sh (exact), result divided again
		sh := 0
		if v, ok := c["sh"]; ok {
			sh = num(v)
		}
		f := math.Ldexp(1, sh)
		for i := range l {
			l[i].X *= f
			l[i].Y *= f
		}
		before := append(geom.LineString{}, l...)
		e["out"] = safely(func() {
			r := l.Simplify(tol * f).(geom.LineString)
			back := make([]geom.Point, len(r))
			for i, p := range r {
				back[i] = geom.Point{X: p.X / f, Y: p.Y / f}
			}
			e["res"] = encIntPath(back)
		})
		e["inputsame"] = reflect.DeepEqual(before, l)
	case "poly", "polyopen":
		p := decPolygon(c["rings"], intDec)
		before := decPolygon(c["rings"], intDec)
		if str(c["kind"]) == "polyopen" {
			// the rings lie back to back in one array of points, each with the rest of the array as spare capacity
			n := 0
			for _, r := range p {
				n += len(r)
			}
			pts := make([]geom.Point, 0, n)
			for i, r := range p {
				off := len(pts)
				pts = append(pts, r...)
				p[i] = geom.Path(pts[off:len(pts):cap(pts)])
			}
		}
		e["out"] = safely(func() {
			r := p.Simplify(tol).(geom.Polygon)
			res := make([]interface{}, len(r))
			for i, ring := range r {
				res[i] = encIntPath(ring)
			}
			e["res"] = res
		})
		e["inputsame"] = reflect.DeepEqual(before, p)
	case "mpoly":
		var mp, before geom.MultiPolygon
		for _, p := range arr(c["polys"]) {
			mp = append(mp, decPolygon(p, intDec))
			before = append(before, decPolygon(p, intDec))
		}
		encP := func(p geom.Polygon) interface{} {
			res := make([]interface{}, len(p))
			for i, ring := range p {
				res[i] = encIntPath(ring)
			}
			return res
		}
		e["solo"] = []interface{}{}
		e["out"] = safely(func() {
			r := mp.Simplify(tol).(geom.MultiPolygon)
			res := make([]interface{}, len(r))
			solo := make([]interface{}, len(mp))
			for i, p := range r {
				res[i] = encP(p)
			}
			for i, p := range mp {
				solo[i] = encP(p.Simplify(tol).(geom.Polygon))
			}
			e["res"], e["solo"] = res, solo
		})
		e["inputsame"] = reflect.DeepEqual(before, mp)
	case "multi":
		var ml geom.MultiLineString
		for _, l := range arr(c["lines"]) {
			ml = append(ml, geom.LineString(decPath(l, intDec)))
		}
		before := make(geom.MultiLineString, len(ml))
		for i := range ml {
			before[i] = append(geom.LineString{}, ml[i]...)
		}
		e["solo"] = []interface{}{}
		e["out"] = safely(func() {
			r := ml.Simplify(tol).(geom.MultiLineString)
			res := make([]interface{}, len(r))
			solo := make([]interface{}, len(ml))
			for i, l := range r {
				res[i] = encIntPath(l)
			}
			for i, l := range ml {
				solo[i] = encIntPath(l.Simplify(tol).(geom.LineString))
			}
			e["res"], e["solo"] = res, solo
		})
		e["inputsame"] = reflect.DeepEqual(before, ml)
	}
	return []Event{e}
}

// exact integer segment intersection test used only to *propose* simple walks; TLC re-decides simplicity
func segsMeetInt(a, b, c, d [2]int) bool {
	cr := func(p, q, r [2]int) int { return (q[0]-p[0])*(r[1]-p[1]) - (q[1]-p[1])*(r[0]-p[0]) }
	sg := func(x int) int {
		if x > 0 {
			return 1
		} else if x < 0 {
			return -1
		}
		return 0
	}
	on := func(p, q, r [2]int) bool {
		return cr(q, r, p) == 0 && p[0] >= minI(q[0], r[0]) && p[0] <= maxI(q[0], r[0]) && p[1] >= minI(q[1], r[1]) && p[1] <= maxI(q[1], r[1])
	}
	o1, o2, o3, o4 := sg(cr(a, b, c)), sg(cr(a, b, d)), sg(cr(c, d, a)), sg(cr(c, d, b))
	if o1*o2 < 0 && o3*o4 < 0 {
		return true
	}
	return on(c, a, b) || on(d, a, b) || on(a, c, d) || on(b, c, d)
}
func minI(a, b int) int {
	if a < b {
		return a
	}
	return b
}
func maxI(a, b int) int {
	if a > b {
		return a
	}
	return b
}

var safeTol2 = []int{0, 3, 7, 11, 19, 23, 31, 43, 47, 59, 67, 71, 79, 83, 103, 107, 127, 151, 199, 251, 307, 419, 503, 751, 1019}

func randomC13(rng *rand.Rand, n int) []map[string]interface{} {
	out := make([]map[string]interface{}, 0, n)
	for len(out) < n {
		span := []int{6, 10, 20, 40, 100}[rng.Intn(5)]
		want := 5 + rng.Intn(40)
		if span <= 10 {
			want = 4 + rng.Intn(8)
		}
		var pts [][2]int
		cur := [2]int{rng.Intn(span + 1), rng.Intn(span + 1)}
		pts = append(pts, cur)
		step := span/4 + 1
		for tries := 0; len(pts) < want && tries < want*30; tries++ {
			nx := [2]int{cur[0] + rng.Intn(2*step+1) - step, cur[1] + rng.Intn(2*step+1) - step}
			if nx[0] < 0 || nx[1] < 0 || nx[0] > span || nx[1] > span || nx == cur {
				continue
			}
			ok := true
			for i := 0; i+1 < len(pts) && ok; i++ {
				if i+1 == len(pts)-1 { // adjacent segment: only forbid folding back onto it
					a, b := pts[i], pts[i+1]
					if (b[0]-a[0])*(nx[1]-a[1])-(b[1]-a[1])*(nx[0]-a[0]) == 0 && segsMeetInt(a, b, nx, nx) {
						ok = false
					}
					continue
				}
				if segsMeetInt(pts[i], pts[i+1], cur, nx) {
					ok = false
				}
			}
			if rng.Intn(12) == 0 {
				ok = true // sometimes allow a non-simple input
			}
			if ok {
				pts = append(pts, nx)
				cur = nx
			}
		}
		curve := make([]interface{}, len(pts))
		for i, p := range pts {
			curve[i] = []interface{}{p[0], p[1]}
		}
		t := safeTol2[rng.Intn(len(safeTol2))]
		for t > span*span/2+3 {
			t = safeTol2[rng.Intn(len(safeTol2))]
		}
		sh := []int{0, 0, -10, -10, -6, 10, 30}[rng.Intn(7)]
		out = append(out, map[string]interface{}{"kind": "line", "curve": curve, "tol2": t, "sh": sh})
	}
	return out
}

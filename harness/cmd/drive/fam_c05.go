package main

import (
	"bytes"
	"encoding/binary"
	"io"
	"math"
	"math/rand"
	"reflect"
	"runtime"
	"strings"
	"testing/iotest"

	"github.com/ctessum/geom"
	"github.com/ctessum/geom/encoding/hex"
	"github.com/ctessum/geom/encoding/wkb"
)

// C05 / C07 (WKB half): encode / decode at the level of bytes.  Coordinates travel as the 8 big-endian
// bytes of their IEEE-754 bit pattern, so the specification compares bit patterns without knowing floats.
//
//	{"kind":"enc","g":tree,"bo":0|1}            real encoder output (bytes, hex text) for a geometry
//	{"kind":"dec","bytes":[...]}                real decoder on (possibly hostile) bytes, with allocation metering
var c05PrevB, c05PrevBCopy []byte
var c05PrevH, c05PrevHCopy string

func init() {
	families["c05"] = &Family{Run: runC05, Random: randomC05, Sandbox: true, DeadlineMS: 8000}
}

func bitsDec(v interface{}) float64 {
	a := arr(v)
	var u uint64
	for _, b := range a {
		u = u<<8 | uint64(num(b))
	}
	return math.Float64frombits(u)
}

func bitsEnc(f float64) interface{} {
	u := math.Float64bits(f)
	out := make([]interface{}, 8)
	for i := 0; i < 8; i++ {
		out[i] = int(u >> (56 - 8*uint(i)) & 0xff)
	}
	return out
}

func bytesToJSON(b []byte) []interface{} {
	out := make([]interface{}, len(b))
	for i, x := range b {
		out[i] = int(x)
	}
	return out
}

func jsonToBytes(v interface{}) []byte {
	a := arr(v)
	out := make([]byte, len(a))
	for i, x := range a {
		out[i] = byte(num(x))
	}
	return out
}

var noGeom = map[string]interface{}{"t": "none", "m": []interface{}{}}

func hexDigits(s string) []interface{} {
	out := make([]interface{}, len(s))
	for i := 0; i < len(s); i++ {
		c := s[i]
		switch {
		case c >= '0' && c <= '9':
			out[i] = int(c - '0')
		case c >= 'a' && c <= 'f':
			out[i] = int(c-'a') + 10
		default:
			out[i] = 99 // not a lower-case hexadecimal digit
		}
	}
	return out
}

func meteredDecode(b []byte) (g geom.Geom, err error, alloc uint64, out string) {
	var m0, m1 runtime.MemStats
	runtime.GC()
	runtime.ReadMemStats(&m0)
	out = safely(func() { g, err = wkb.Decode(b) })
	runtime.ReadMemStats(&m1)
	alloc = m1.TotalAlloc - m0.TotalAlloc
	return
}

func runC05(c map[string]interface{}) []Event {
	switch str(c["kind"]) {
	case "enc":
		g := decGeom(c["g"], bitsDec)
		var order binary.ByteOrder = binary.BigEndian
		if num(c["bo"]) == 1 {
			order = binary.LittleEndian
		}
		e := Event{"ev": "enc", "bytes": []interface{}{}, "hex": []interface{}{}, "keep": true, "stream": false}
		e["out"] = safely(func() {
			b, err := wkb.Encode(g, order)
			if err != nil {
				e["out2"] = "err:" + err.Error()
				return
			}
			e["bytes"] = bytesToJSON(b)
			h, err := hex.Encode(g, order)
			if err != nil {
				e["out2"] = "err:" + err.Error()
				return
			}
			// the encodings returned for the previous geometry are still what they were
			e["keep"] = bytes.Equal(c05PrevB, c05PrevBCopy) && c05PrevH == c05PrevHCopy
			prevEnc := c05PrevBCopy
			c05PrevB, c05PrevBCopy = b, append([]byte(nil), b...)
			c05PrevH, c05PrevHCopy = h, string(append([]byte(nil), h...))
			e["hex"] = hexDigits(h)
			e["out2"] = "ok"
			// a stream: this encoding, the previous geometry's and this one again, written back to back and read through a
			// reader that has nothing but Read; every one of them comes back as the bytes it was written as
			var st bytes.Buffer
			parts := [][]byte{b, prevEnc, b}
			for _, p := range parts {
				st.Write(p)
			}
			rd := struct{ io.Reader }{&st}
			okStream := true
			for _, p := range parts {
				if len(p) == 0 {
					continue
				}
				g2, err := wkb.Read(rd)
				if err != nil {
					okStream = false
					break
				}
				var o2 binary.ByteOrder = binary.BigEndian
				if p[0] == 1 {
					o2 = binary.LittleEndian
				}
				b2, err := wkb.Encode(g2, o2)
				if err != nil || !bytes.Equal(b2, p) {
					okStream = false
					break
				}
			}
			e["stream"] = okStream
		})
		return []Event{e}
	case "deep": // a leaf wrapped in d one-member collections
		var leaf geom.Geom = decGeom(c["leaf"], bitsDec)
		d := num(c["d"])
		var order binary.ByteOrder = binary.BigEndian
		if num(c["bo"]) == 1 {
			order = binary.LittleEndian
		}
		e := Event{"ev": "deep", "bytes": []interface{}{}, "hexsame": false, "err": "", "depths": []interface{}{-1, -1, -1},
			"leaves": []interface{}{noGeom, noGeom, noGeom}}
		e["out"] = safely(func() {
			g := leaf
			for i := 0; i < d; i++ {
				g = geom.GeometryCollection{g}
			}
			b, err := wkb.Encode(g, order)
			if err != nil {
				e["err"] = "encode: " + err.Error()
				return
			}
			e["bytes"] = bytesToJSON(b)
			h, err := hex.Encode(g, order)
			if err != nil {
				e["err"] = "hex encode: " + err.Error()
				return
			}
			const digits = "0123456789abcdef"
			toHex := func(b []byte) string {
				hx := make([]byte, 0, 2*len(b))
				for _, x := range b {
					hx = append(hx, digits[x>>4], digits[x&15])
				}
				return string(hx)
			}
			e["hexsame"] = h == toHex(b)
			peel := func(g geom.Geom) (int, interface{}) {
				n := 0
				for {
					gc, ok := g.(geom.GeometryCollection)
					if !ok || len(gc) != 1 {
						break
					}
					g = gc[0]
					n++
				}
				return n, encGeom(g, bitsEnc)
			}
			depths, leaves := []interface{}{-1, -1, -1}, []interface{}{noGeom, noGeom, noGeom}
			mixed := jsonToBytes(c["bytes"])
			for i, dec := range []func() (geom.Geom, error){
				func() (geom.Geom, error) { return wkb.Decode(b) },
				func() (geom.Geom, error) { return wkb.Decode(mixed) },
				func() (geom.Geom, error) { return hex.Decode(toHex(mixed)) },
			} {
				g2, err := dec()
				if err != nil {
					e["err"] = "decode: " + err.Error()
					continue
				}
				if g2 != nil {
					depths[i], leaves[i] = peel(g2)
				}
			}
			e["depths"], e["leaves"] = depths, leaves
		})
		return []Event{e}
	case "hexstr": // an arbitrary (mostly non-hex) string handed to the hex decoder
		var sb []byte
		for _, ch := range arr(c["chars"]) {
			sb = append(sb, byte(num(ch)))
		}
		e := Event{"ev": "hexstr", "res": "ok"}
		e["out"] = safely(func() {
			if g, err := hex.Decode(string(sb)); err != nil {
				e["res"] = "err"
			} else if g == nil {
				e["res"] = "nil"
			}
		})
		return []Event{e}
	case "dec":
		var b []byte
		if v, ok := c["bytes"]; ok {
			b = jsonToBytes(v)
		}
		if v, ok := c["gen"]; ok { // big inputs are described, not listed
			b = genBigInput(v.(map[string]interface{}))
		}
		e := Event{"ev": "dec", "g": noGeom, "g2": noGeom, "hexlow": noGeom, "hexup": noGeom, "alloc": 0, "len": len(b), "reenc": "none"}
		g, err, alloc, out := meteredDecode(b)
		if alloc > math.MaxInt32 {
			alloc = math.MaxInt32
		}
		e["alloc"] = int(alloc)
		switch {
		case out != "ok":
			e["out"] = out
		case err != nil:
			e["out"] = "err"
		case g == nil:
			e["out"] = "nilgeom"
		default:
			e["out"] = "ok"
			e["g"] = encGeom(g, bitsEnc)
			// re-encode and decode again
			e["reenc"] = safely(func() {
				// re-encoded in either byte order, it decodes to the same geometry again
				for _, order := range []binary.ByteOrder{binary.BigEndian, binary.LittleEndian} {
					b2, err := wkb.Encode(g, order)
					if err != nil {
						e["reenc"] = "err"
						return
					}
					g2, err := wkb.Decode(b2)
					if err != nil {
						e["reenc"] = "err"
						return
					}
					e["g2"] = encGeom(g2, bitsEnc)
					if !reflect.DeepEqual(e["g2"], e["g"]) {
						return
					}
				}
			})
		}
		// the same bytes through wkb.Read from readers that hand out less than they are asked for (one byte at a time, half of
		// each request): a Reader is allowed to do that, and the decoded geometry must not depend on it
		for _, v := range []struct {
			k  string
			mk func() io.Reader
		}{{"gone", func() io.Reader { return iotest.OneByteReader(bytes.NewReader(b)) }},
			{"ghalf", func() io.Reader { return iotest.HalfReader(bytes.NewReader(b)) }}} {
			var sg geom.Geom
			var serr error
			o := safely(func() { sg, serr = wkb.Read(v.mk()) })
			if o != "ok" {
				e[v.k] = map[string]interface{}{"t": "panic", "m": []interface{}{}, "msg": o}
			} else if serr != nil || sg == nil {
				e[v.k] = map[string]interface{}{"t": "err", "m": []interface{}{}}
			} else {
				e[v.k] = encGeom(sg, bitsEnc)
			}
		}
		// the hex codec is the same bytes in hexadecimal, either case on input
		hx := make([]byte, 0, 2*len(b))
		const digits = "0123456789abcdef"
		for _, x := range b {
			hx = append(hx, digits[x>>4], digits[x&15])
		}
		for _, v := range []struct{ k, s string }{{"hexlow", string(hx)}, {"hexup", strings.ToUpper(string(hx))}} {
			var hg geom.Geom
			var herr error
			o := safely(func() { hg, herr = hex.Decode(v.s) })
			if o != "ok" {
				e[v.k] = map[string]interface{}{"t": "panic", "m": []interface{}{}, "msg": o}
			} else if herr != nil || hg == nil {
				e[v.k] = map[string]interface{}{"t": "err", "m": []interface{}{}}
			} else {
				e[v.k] = encGeom(hg, bitsEnc)
			}
		}
		// odd-length / non-hex text must be an error, not a panic
		e["hexbad"] = safely(func() {
			if _, err := hex.Decode(string(hx) + "0"); err == nil && len(hx) > 0 {
				e["hexbad"] = "accepted odd length"
			}
			if _, err := hex.Decode("zz" + string(hx)); err == nil {
				e["hexbad"] = "accepted non-hex"
			}
		})
		return []Event{e}
	}
	return []Event{{"ev": "unknown"}}
}

// big hostile inputs (up to 64 KiB) are generated from a description so that traces stay small
func genBigInput(d map[string]interface{}) []byte {
	rng := rand.New(rand.NewSource(int64(num(d["seed"]))))
	n := num(d["n"])
	switch str(d["shape"]) {
	case "nest": // deeply nested geometry collections, each announcing one member
		var b []byte
		for len(b)+9 <= n {
			b = append(b, 1, 7, 0, 0, 0, 1, 0, 0, 0)
		}
		return b
	case "nestbig": // nested collections announcing huge member counts
		var b []byte
		for len(b)+9 <= n {
			b = append(b, 1, 7, 0, 0, 0, 0xff, 0xff, 0xff, 0x7f)
		}
		return b
	case "rings": // a polygon of many rings, each announcing 2^28 points but carrying one
		b := []byte{1, 3, 0, 0, 0, 0xff, 0xff, 0, 0}
		for len(b)+20 <= n {
			b = append(b, 0, 0, 0, 0x10)
			b = append(b, make([]byte, 16)...)
		}
		return b
	case "valid": // a large valid multi-line string, then mutated
		var ml geom.MultiLineString
		for sz := 9; sz < n-200; {
			k := 1 + rng.Intn(40)
			l := make(geom.LineString, k)
			for i := range l {
				l[i] = geom.Point{X: rng.NormFloat64() * 1e3, Y: rng.NormFloat64()}
			}
			ml = append(ml, l)
			sz += 9 + 16*k
		}
		b, _ := wkb.Encode(ml, binary.LittleEndian)
		for i := 0; i < num(d["flips"]); i++ {
			p := rng.Intn(len(b))
			b[p] ^= 1 << uint(rng.Intn(8))
		}
		if t := num(d["trunc"]); t > 0 && t < len(b) {
			b = b[:t]
		}
		return b
	}
	b := make([]byte, n)
	rng.Read(b)
	return b
}

func randTreeC05(rng *rand.Rand, depth int) map[string]interface{} {
	pool := []uint64{0x7ff8000000000000, 0x7ff0000000000001, 0xfff80000deadbeef, 0, 0x8000000000000000, 0x7ff0000000000000,
		0x3fb999999999999a, 1, 0xfff0000000000000, 0x3ff0000000000000, 0x7fefffffffffffff}
	co := func() interface{} {
		if rng.Intn(3) == 0 {
			return bitsEnc(math.Float64frombits(rng.Uint64()))
		}
		return bitsEnc(math.Float64frombits(pool[rng.Intn(len(pool))]))
	}
	pt := func() interface{} { return []interface{}{co(), co()} }
	path := func(max int) []interface{} {
		out := make([]interface{}, rng.Intn(max+1))
		for i := range out {
			out[i] = pt()
		}
		return out
	}
	paths := func(m, p int) []interface{} {
		out := make([]interface{}, rng.Intn(m+1))
		for i := range out {
			out[i] = path(p)
		}
		return out
	}
	G := func(t string, m interface{}) map[string]interface{} { return map[string]interface{}{"t": t, "m": m} }
	k := rng.Intn(7)
	if depth <= 0 && k == 6 {
		k = rng.Intn(6)
	}
	switch k {
	case 0:
		return G("Point", pt())
	case 1:
		return G("LineString", path(5))
	case 2:
		return G("Polygon", paths(4, 4))
	case 3:
		return G("MultiPoint", path(5))
	case 4:
		return G("MultiLineString", paths(4, 4))
	case 5:
		m := make([]interface{}, rng.Intn(4))
		for i := range m {
			m[i] = paths(3, 3)
		}
		return G("MultiPolygon", m)
	}
	m := make([]interface{}, rng.Intn(4))
	for i := range m {
		m[i] = randTreeC05(rng, depth-1)
	}
	return G("GeometryCollection", m)
}

// random: valid encodings of random trees (both directions) and mutated / hostile inputs
func randomC05(rng *rand.Rand, n int) []map[string]interface{} {
	var out []map[string]interface{}
	for len(out) < n {
		tree := randTreeC05(rng, 3)
		bo := rng.Intn(2)
		out = append(out, map[string]interface{}{"kind": "enc", "g": tree, "bo": bo})
		g := decGeom(tree, bitsDec)
		var order binary.ByteOrder = binary.BigEndian
		if bo == 1 {
			order = binary.LittleEndian
		}
		b, err := wkb.Encode(g, order)
		if err != nil || len(b) > 400 {
			continue
		}
		out = append(out, map[string]interface{}{"kind": "dec", "bytes": bytesToJSON(b), "valid": true})
		// mutations: truncation, bit flip, count inflation, type / byte-order corruption
		for m := 0; m < 4; m++ {
			mb := append([]byte{}, b...)
			switch rng.Intn(5) {
			case 0:
				mb = mb[:rng.Intn(len(mb))]
			case 1:
				p := rng.Intn(len(mb))
				mb[p] ^= 1 << uint(rng.Intn(8))
			case 2:
				if len(mb) >= 9 {
					p := 5 + rng.Intn(len(mb)-8)
					copy(mb[p:], []byte{0xff, 0xff, 0xff, 0x0f}[:minI(4, len(mb)-p)])
				}
			case 3:
				mb[0] = byte(2 + rng.Intn(250))
			case 4:
				if len(mb) >= 5 {
					mb[1+rng.Intn(4)] = byte(rng.Intn(256))
				}
			}
			out = append(out, map[string]interface{}{"kind": "dec", "bytes": bytesToJSON(mb), "valid": false})
		}
		if len(out)%40 < 6 { // occasionally a big described input
			shapes := []string{"nest", "nestbig", "rings", "valid", "random"}
			out = append(out, map[string]interface{}{"kind": "dec", "big": true, "valid": false,
				"gen": map[string]interface{}{"shape": shapes[rng.Intn(len(shapes))], "n": 1000 + rng.Intn(64000), "seed": rng.Intn(1 << 30),
					"flips": rng.Intn(4), "trunc": rng.Intn(60000)}})
		}
	}
	return out[:n]
}

package main

import (
	"math"
	"math/rand"

	"github.com/ctessum/geom"
	"github.com/ctessum/geom/route"
)

// C19: a Network is built with AddLink in the given order and queried once.  Every link is an L-shaped polyline
// from pos[u] to pos[v] (first along x, then along y) with an optional spike of height extra/2 in its first leg,
// so its length is |dx| + |dy| + extra exactly.
func init() {
	families["c19"] = &Family{Run: runC19, Random: randomC19, Sandbox: true, DeadlineMS: 10000}
}

func c19Line(a, b [2]int, extra int) geom.LineString {
	P := func(x, y int) geom.Point { return geom.Point{X: float64(x), Y: float64(y)} }
	l := geom.LineString{P(a[0], a[1])}
	h := extra / 2
	if h > 0 {
		// a spike perpendicular to the first leg, right at the start
		if a[0] != b[0] {
			l = append(l, P(a[0], a[1]+h), P(a[0], a[1]))
		} else {
			l = append(l, P(a[0]+h, a[1]), P(a[0], a[1]))
		}
	}
	if a[0] != b[0] && a[1] != b[1] {
		l = append(l, P(b[0], a[1]))
	}
	return append(l, P(b[0], b[1]))
}

func runC19(c map[string]interface{}) []Event {
	var pos [][2]int
	for _, p := range arr(c["pos"]) {
		a := arr(p)
		pos = append(pos, [2]int{num(a[0]), num(a[1])})
	}
	opt := route.Distance
	if str(c["opt"]) == "time" {
		opt = route.Time
	}
	e := Event{"ev": "route", "route": []interface{}{}, "dist": -1, "time4": -1, "exact": false}
	e["out"] = safely(func() {
		// "slow": every speed is divided by 2^slow (exact), so that all of them are below one unit of length per unit of time;
		// the times are multiplied back before they are reported
		slow := 0
		if v, ok := c["slow"]; ok {
			slow = num(v)
		}
		net := route.NewNetwork(opt)
		var lines []geom.LineString
		from, to := arr(c["from"]), arr(c["to"])
		// "pre": the same query (both directions) is also asked when only the first `pre` links are in the network; the
		// answer that counts is the one after all AddLink calls - a network is the sum of its links, whatever was asked
		// of it in between
		pre := -1
		if v, ok := c["pre"]; ok {
			pre = num(v)
		}
		for i, lv := range arr(c["links"]) {
			if i == pre {
				a := geom.Point{X: float64(num(from[0])), Y: float64(num(from[1]))}
				b := geom.Point{X: float64(num(to[0])), Y: float64(num(to[1]))}
				net.ShortestRoute(a, b)
				net.ShortestRoute(b, a)
			}
			l := lv.(map[string]interface{})
			ln := c19Line(pos[num(l["u"])-1], pos[num(l["v"])-1], num(l["extra"]))
			lines = append(lines, ln)
			net.AddLink(ln, math.Ldexp(float64(num(l["speed"])), -slow))
		}
		qf := geom.Point{X: float64(num(from[0])), Y: float64(num(from[1]))}
		qt := geom.Point{X: float64(num(to[0])), Y: float64(num(to[1]))}
		if _, ok := c["twin"]; ok {
			// twin queries: from / to are the positions of two nodes; the query points are placed 2^-40 of the way from
			// the midpoint towards either node - different points, a hair's breadth apart, with different nearest nodes
			mid := geom.Point{X: (qf.X + qt.X) / 2, Y: (qf.Y + qt.Y) / 2}
			eps := math.Ldexp(1, -40)
			qf, qt = geom.Point{X: mid.X + (qf.X-mid.X)*eps, Y: mid.Y + (qf.Y-mid.Y)*eps}, geom.Point{X: mid.X + (qt.X-mid.X)*eps, Y: mid.Y + (qt.Y-mid.Y)*eps}
			e["twinapart"] = qf != qt
		}
		// every third case: the finished network is first asked for the routes from the same start point to every node
		// position (and back); the recorded answer is the one to the question that comes after them
		if (len(arr(c["links"]))+len(pos)+int(seed()))%3 == 0 {
			for _, p := range pos {
				pp := geom.Point{X: float64(p[0]), Y: float64(p[1])}
				net.ShortestRoute(qf, pp)
				net.ShortestRoute(pp, qt)
			}
			e["warmed"] = true
		}
		r, dist, tm, _, _ := net.ShortestRoute(qf, qt)
		ids := []interface{}{}
		for _, piece := range r {
			id := 0
			for i, ln := range lines {
				if len(ln) == len(piece) {
					same := true
					for k := range ln {
						if ln[k] != piece[k] {
							same = false
						}
					}
					if same {
						id = i + 1
					}
				}
			}
			ids = append(ids, id)
		}
		e["route"] = ids
		// (a non-finite total has no integer form: it is reported as -7777, which no route can have)
		fin := func(v float64) int {
			if math.IsNaN(v) || math.IsInf(v, 0) || math.Abs(v) > 1e9 {
				return -7777
			}
			return int(math.Round(v))
		}
		e["dist"] = fin(dist)
		tm = math.Ldexp(tm, -slow)
		e["time4"] = fin(tm * 4)
		e["exact"] = dist == math.Round(dist) && tm*4 == math.Round(tm*4)
	})
	return []Event{e}
}

// random lattice networks with 8-14 nodes on a coarse grid
func randomC19(rng *rand.Rand, n int) []map[string]interface{} {
	out := make([]map[string]interface{}, 0, n)
	for len(out) < n {
		nn := 6 + rng.Intn(7)
		used := map[[2]int]bool{}
		var pos []interface{}
		var pp [][2]int
		for len(pp) < nn {
			p := [2]int{rng.Intn(7) * 30, rng.Intn(7) * 30}
			if used[p] {
				continue
			}
			used[p] = true
			pp = append(pp, p)
			pos = append(pos, []interface{}{p[0], p[1]})
		}
		seen := map[[2]int]bool{}
		var links []interface{}
		for k := 0; k < nn+rng.Intn(nn); k++ {
			u, v := 1+rng.Intn(nn), 1+rng.Intn(nn)
			if u == v {
				continue
			}
			if u > v {
				u, v = v, u
			}
			if seen[[2]int{u, v}] {
				continue
			}
			seen[[2]int{u, v}] = true
			ex := []int{0, 2, 6, 40}[rng.Intn(4)]
			d := absI(pp[u-1][0]-pp[v-1][0]) + absI(pp[u-1][1]-pp[v-1][1])
			links = append(links, map[string]interface{}{"u": u, "v": v, "len": d + ex, "speed": []int{1, 2, 4}[rng.Intn(3)], "extra": ex})
		}
		if len(links) == 0 {
			continue
		}
		// query points next to two nodes that carry a link
		l1 := links[rng.Intn(len(links))].(map[string]interface{})
		l2 := links[rng.Intn(len(links))].(map[string]interface{})
		a, b := pp[l1["u"].(int)-1], pp[l2["v"].(int)-1]
		if a == b {
			continue
		}
		out = append(out, map[string]interface{}{"kind": "route", "pos": pos, "links": links, "opt": []string{"distance", "time"}[rng.Intn(2)],
			"from": []interface{}{a[0] + 1, a[1] + 2}, "to": []interface{}{b[0] - 2, b[1] + 1}})
	}
	return out
}

package main

import (
	"bytes"
	"math"
	"math/big"
	"math/rand"
	"strconv"
	"strings"

	"github.com/ctessum/geom"
	"github.com/ctessum/geom/encoding/geojson"
	"github.com/ctessum/geom/encoding/wkt"
)

// C06 / C17: the real GeoJSON and WKT encoders; their output is lexed by the small lexers below (no encoding/json, no
// strconv) and number tokens are converted to float64 by exact decimal -> binary rounding with math/big.
func init() {
	families["c06"] = &Family{Run: runC06, Random: randomC06}
}

// ids 1..14 -> adversarial finite values (11-14 are used by the Extremes family only); 97..99 -> non-finite
var c06Pool = []float64{0, math.Copysign(0, -1), 0.1, 1e21, 1e-7, 123456789.123456789, -1.5, 5e-324, 1.7976931348623157e308, 12345678.9, -1.7976931348623157e308,
	float64(float32(0.1)), float64(math.MaxFloat32), float64(float32(52.3716))} // 12-14: exactly representable in 32 bits, with a long shortest 64-bit form

func c06Dec(v interface{}) float64 {
	id := num(v)
	switch id {
	case 97:
		return math.NaN()
	case 98:
		return math.Inf(1)
	case 99:
		return math.Inf(-1)
	}
	if id >= 1000 { // random driver: id 1000+k denotes the k-th value of its seeded table
		return c06Extra[id-1000]
	}
	return c06Pool[id-1]
}

var c06Extra []float64

func c06Enc(f float64) interface{} {
	b := math.Float64bits(f)
	for i, c := range c06Pool {
		if math.Float64bits(c) == b {
			return i + 1
		}
	}
	for i, c := range c06Extra {
		if math.Float64bits(c) == b {
			return 1000 + i
		}
	}
	return -1
}

// exact decimal text -> nearest float64 (round to nearest even), independent of strconv
func parseDecimalExact(s string) (float64, bool) {
	if s == "" {
		return 0, false
	}
	neg := false
	t := s
	if t[0] == '-' {
		neg, t = true, t[1:]
	} else if t[0] == '+' {
		t = t[1:]
	}
	mant, exp := t, 0
	if i := strings.IndexAny(t, "eE"); i >= 0 {
		mant = t[:i]
		es := t[i+1:]
		sign := 1
		if es != "" && (es[0] == '+' || es[0] == '-') {
			if es[0] == '-' {
				sign = -1
			}
			es = es[1:]
		}
		if es == "" {
			return 0, false
		}
		for _, c := range es {
			if c < '0' || c > '9' {
				return 0, false
			}
			exp = exp*10 + int(c-'0')
			if exp > 100000 {
				return 0, false
			}
		}
		exp *= sign
	}
	digits := ""
	seenDot, nd := false, 0
	for _, c := range mant {
		switch {
		case c == '.':
			if seenDot {
				return 0, false
			}
			seenDot = true
		case c >= '0' && c <= '9':
			digits += string(c)
			if seenDot {
				exp--
			}
			nd++
		default:
			return 0, false
		}
	}
	if nd == 0 {
		return 0, false
	}
	n := new(big.Int)
	n.SetString(digits, 10)
	r := new(big.Rat).SetInt(n)
	p := new(big.Int).Exp(big.NewInt(10), big.NewInt(int64(absI(exp))), nil)
	if exp >= 0 {
		r.Mul(r, new(big.Rat).SetInt(p))
	} else {
		r.Quo(r, new(big.Rat).SetInt(p))
	}
	f, _ := r.Float64() // big.Rat.Float64 returns the nearest float64 (exactly rounded)
	if neg {
		f = math.Copysign(f, -1)
		if f == 0 {
			f = math.Copysign(0, -1)
		}
	}
	return f, true
}

func tok(k, s string, id int) map[string]interface{} {
	return map[string]interface{}{"k": k, "s": s, "id": id}
}

func isNumChar(c byte) bool {
	return (c >= '0' && c <= '9') || c == '-' || c == '+' || c == '.' || c == 'e' || c == 'E'
}

func lexJSON(b []byte) []interface{} {
	var out []interface{}
	for i := 0; i < len(b); {
		c := b[i]
		switch {
		case c == ' ' || c == '\n' || c == '\t' || c == '\r':
			i++
		case strings.IndexByte("{}[]:,", c) >= 0:
			out = append(out, tok(string(c), "", 0))
			i++
		case c == '"':
			j := i + 1
			for j < len(b) && b[j] != '"' {
				if b[j] == '\\' {
					return append(out, tok("bad", "escape", 0))
				}
				j++
			}
			if j >= len(b) {
				return append(out, tok("bad", "unterminated", 0))
			}
			out = append(out, tok("str", string(b[i+1:j]), 0))
			i = j + 1
		case isNumChar(c):
			j := i
			for j < len(b) && isNumChar(b[j]) {
				j++
			}
			// JSON number grammar: no leading '+', no leading zeros, digits after '.'
			s := string(b[i:j])
			f, ok := parseDecimalExact(s)
			t := strings.TrimPrefix(s, "-")
			if !ok || s[0] == '+' || (len(t) > 1 && t[0] == '0' && t[1] >= '0' && t[1] <= '9') || strings.HasSuffix(t, ".") || strings.HasPrefix(t, ".") {
				return append(out, tok("bad", s, 0))
			}
			out = append(out, tok("num", "", c06Enc(f).(int)))
			i = j
		default:
			return append(out, tok("bad", string(c), 0))
		}
	}
	return out
}

func lexWKT(b []byte) []interface{} {
	var out []interface{}
	for i := 0; i < len(b); {
		c := b[i]
		switch {
		case c == ' ':
			i++
		case c == '(' || c == ')' || c == ',':
			out = append(out, tok(string(c), "", 0))
			i++
		case c >= 'A' && c <= 'Z':
			j := i
			for j < len(b) && b[j] >= 'A' && b[j] <= 'Z' {
				j++
			}
			out = append(out, tok("kw", string(b[i:j]), 0))
			i = j
		case isNumChar(c):
			j := i
			for j < len(b) && isNumChar(b[j]) {
				j++
			}
			f, ok := parseDecimalExact(string(b[i:j]))
			if !ok {
				return append(out, tok("bad", string(b[i:j]), 0))
			}
			if !shortestDecimal(string(b[i:j]), f) {
				c06LongNumber = true
			}
			out = append(out, tok("num", "", c06Enc(f).(int)))
			i = j
		default:
			return append(out, tok("bad", string(c), 0))
		}
	}
	return out
}

// set by lexWKT when a number token carries more significant digits than its value needs
var c06LongNumber bool

// shortestDecimal: does the token use as few significant digits as any decimal that reads back as f?  With n significant
// digits in the token, the value correctly rounded to n-1 digits must read back as something else.
func shortestDecimal(tokText string, f float64) bool {
	t := strings.TrimLeft(tokText, "+-")
	if k := strings.IndexAny(t, "eE"); k >= 0 {
		t = t[:k]
	}
	digits := strings.Replace(t, ".", "", 1)
	if !strings.Contains(t, ".") {
		digits = strings.TrimRight(digits, "0") // 1200 has two significant digits
	}
	digits = strings.TrimLeft(digits, "0")
	if strings.Contains(t, ".") {
		digits = strings.TrimRight(digits, "0")
	}
	n := len(digits)
	if n <= 1 {
		return true
	}
	if n > 17 {
		return false
	}
	shorter := strconv.FormatFloat(f, 'e', n-2, 64)
	g, err := strconv.ParseFloat(shorter, 64)
	return err != nil || math.Float64bits(g) != math.Float64bits(f)
}

// texts returned by the previous case's Encode calls (the very slices) and private copies of them: an encoding that a
// caller still holds must not change when something else is encoded afterwards
var c06PrevGJ, c06PrevGJCopy, c06PrevWKT, c06PrevWKTCopy []byte

func runC06(c map[string]interface{}) []Event {
	if v, ok := c["extra"]; ok { // random driver: the seeded value table travels with the case
		c06Extra = c06Extra[:0]
		for _, x := range arr(v) {
			c06Extra = append(c06Extra, bitsDec(x))
		}
	} else {
		c06Extra = nil
	}
	g := decGeom(c["g"], c06Dec)
	e := Event{"ev": "text", "gjtokens": []interface{}{}, "wkttokens": []interface{}{}, "gjdec": noGeom, "gjkeep": true, "wktkeep": true, "wktshort": true}
	e["gjout"] = safely(func() {
		b, err := geojson.Encode(g)
		if err != nil {
			e["gjout2"] = "err"
			return
		}
		e["gjkeep"] = bytes.Equal(c06PrevGJ, c06PrevGJCopy)
		c06PrevGJ, c06PrevGJCopy = b, append([]byte(nil), b...)
		e["gjtokens"] = lexJSON(b)
		d, err := geojson.Decode(b)
		if err == nil && d != nil {
			e["gjdec"] = encGeom(d, c06Enc)
		}
	})
	if _, bad := e["gjout2"]; bad {
		e["gjout"] = "err"
	}
	e["wktout"] = safely(func() {
		b, err := wkt.Encode(g)
		if err != nil {
			e["wktout2"] = "err"
			return
		}
		e["wktkeep"] = bytes.Equal(c06PrevWKT, c06PrevWKTCopy)
		c06PrevWKT, c06PrevWKTCopy = b, append([]byte(nil), b...)
		c06LongNumber = false
		e["wkttokens"] = lexWKT(b)
		e["wktshort"] = !c06LongNumber
	})
	if _, bad := e["wktout2"]; bad {
		e["wktout"] = "err"
	}
	return []Event{e}
}

// random geometries of the supported types with random finite bit patterns (ids 1000+k into a per-case table)
func randomC06(rng *rand.Rand, n int) []map[string]interface{} {
	out := make([]map[string]interface{}, n)
	G := func(t string, m interface{}) map[string]interface{} { return map[string]interface{}{"t": t, "m": m} }
	for i := range out {
		var table []interface{}
		var tableVals []float64
		co := func() interface{} {
			var f float64
			switch rng.Intn(4) {
			case 0:
				f = math.Float64frombits(rng.Uint64())
				for math.IsNaN(f) || math.IsInf(f, 0) {
					f = math.Float64frombits(rng.Uint64())
				}
			case 1:
				f = rng.NormFloat64() * math.Pow(10, float64(rng.Intn(40)-20))
			case 2:
				f = float64(rng.Intn(2000)-1000) / 8
			default:
				f = float64(rng.Int63()) / 1e3
			}
			// one id per distinct bit pattern (the pool's ids first), so that interning is a bijection
			fb := math.Float64bits(f)
			for k, c := range c06Pool {
				if math.Float64bits(c) == fb {
					return k + 1
				}
			}
			for k, tv := range tableVals {
				if math.Float64bits(tv) == fb {
					return 1000 + k
				}
			}
			tableVals = append(tableVals, f)
			table = append(table, bitsEnc(f))
			return 1000 + len(table) - 1
		}
		pt := func() interface{} { return []interface{}{co(), co()} }
		path := func(lo, hi int) []interface{} {
			o := make([]interface{}, lo+rng.Intn(hi-lo+1))
			for j := range o {
				o[j] = pt()
			}
			return o
		}
		paths := func(lo, hi int) []interface{} {
			o := make([]interface{}, lo+rng.Intn(hi-lo+1))
			for j := range o {
				o[j] = path(1, 4)
			}
			return o
		}
		var g map[string]interface{}
		switch rng.Intn(6) {
		case 0:
			g = G("Point", pt())
		case 1:
			g = G("MultiPoint", path(1, 5))
		case 2:
			g = G("LineString", path(1, 5))
		case 3:
			g = G("MultiLineString", paths(1, 4))
		case 4:
			g = G("Polygon", paths(1, 4))
		default:
			m := make([]interface{}, 1+rng.Intn(3))
			for j := range m {
				m[j] = paths(1, 3)
			}
			g = G("MultiPolygon", m)
		}
		out[i] = map[string]interface{}{"kind": "text", "g": g, "extra": table}
	}
	return out
}

var _ = geom.Point{}

package main

import (
	"math"
	"math/big"
	"math/rand"
	"reflect"

	"github.com/ctessum/geom"
	"github.com/ctessum/geom/op"
)

// C03: Area / Centroid / Length / Distance / Buffer.  Floats are reported through integers: exact values where the
// result must be an integer (lattice areas x 2, integer lengths), values x K rounded otherwise.
func init() {
	families["c03"] = &Family{Run: runC03, Random: randomC03}
}

const c03K = 1000.0

func scaledPt(p geom.Point) []interface{} {
	q := func(v float64) int {
		if math.IsNaN(v) || math.IsInf(v, 0) || math.Abs(v) > 1e6 {
			return codeBad
		}
		return int(math.Round(v * c03K))
	}
	return []interface{}{q(p.X), q(p.Y)}
}

func runC03(c map[string]interface{}) []Event {
	// "off": the whole case is translated (far from the coordinate origin); centroids are reported relative to it
	var off geom.Point
	if v, ok := c["off"]; ok {
		off = decPoint(v, intDec)
	}
	// "sh": every coordinate is multiplied by 2^sh (exact); measures are divided again before they are reported
	sh := 0
	if v, ok := c["sh"]; ok {
		sh = num(v)
	}
	up := func(p geom.Point) geom.Point { return geom.Point{X: math.Ldexp(p.X, sh), Y: math.Ldexp(p.Y, sh)} }
	switch str(c["kind"]) {
	case "shape":
		sp := arr(c["spelled"])
		mp := make(geom.MultiPolygon, len(sp))
		for i, p := range sp {
			mp[i] = decPolygon(p, intDec)
			for _, r := range mp[i] {
				for k := range r {
					r[k].X += off.X
					r[k].Y += off.Y
					r[k] = up(r[k])
				}
			}
		}
		// every other case: all rings of the shape lie back to back in one array of points (each with the rest of the array as
		// spare capacity); the shape is the same shape, and it must still be after it has been measured
		shared := (len(sp)+len(arr(sp[0]))+sh+int(seed()))%2 == 0
		if shared {
			n := 0
			for _, p := range mp {
				for _, r := range p {
					n += len(r)
				}
			}
			pts := make([]geom.Point, 0, n)
			for _, p := range mp {
				for i, r := range p {
					o := len(pts)
					pts = append(pts, r...)
					p[i] = geom.Path(pts[o:len(pts):cap(pts)])
				}
			}
		}
		var before [][]geom.Path
		for _, p := range mp {
			var rs []geom.Path
			for _, r := range p {
				rs = append(rs, append(geom.Path{}, r...))
			}
			before = append(before, rs)
		}
		scaledPt := func(p geom.Point) []interface{} {
			return scaledPt(geom.Point{X: math.Ldexp(p.X, -sh) - off.X, Y: math.Ldexp(p.Y, -sh) - off.Y})
		}
		e := Event{"ev": "measure", "area2": 0, "area2exact": false, "cen": []interface{}{codeBad, codeBad},
			"pcen": []interface{}{codeBad, codeBad}, "opcen": []interface{}{codeBad, codeBad}, "oparea2": -1}
		e["out"] = safely(func() {
			var a float64
			if len(mp) == 1 {
				a = mp[0].Area()
				if ma := mp.Area(); ma != a {
					a = math.NaN() // the one-member multi-polygon must agree with the polygon
				}
			} else {
				a = mp.Area()
			}
			a = math.Ldexp(a, -2*sh)
			e["area2"] = int(math.Round(2 * a))
			e["area2exact"] = 2*a == math.Round(2*a)
			e["cen"] = scaledPt(mp.Centroid())
			var g geom.Geom = mp
			if len(mp) == 1 {
				e["pcen"] = scaledPt(mp[0].Centroid())
				if oc, err := op.Centroid(mp[0]); err == nil {
					e["opcen"] = scaledPt(oc)
				}
				g = mp[0]
			}
			for i, p := range mp { // the operands are what they were
				for j, r := range p {
					if !reflect.DeepEqual([]geom.Point(r), []geom.Point(before[i][j])) {
						e["area2exact"] = false
						e["note"] = "the shape was modified by measuring it"
					}
				}
			}
			oa := math.Ldexp(op.Area(g), -2*sh)
			if 2*oa == math.Round(2*oa) {
				e["oparea2"] = int(2 * oa)
			}
		})
		return []Event{e}
	case "box":
		mn, mx := up(decPoint(c["min"], intDec)), up(decPoint(c["max"], intDec))
		e := Event{"ev": "box", "cen2": []interface{}{codeBad, codeBad}, "area": -1}
		e["out"] = safely(func() {
			b := &geom.Bounds{Min: mn, Max: mx}
			cen := b.Centroid()
			q := func(v float64) int { // twice the centre, scaled back (exact)
				w := math.Ldexp(v, 1-sh)
				if math.IsNaN(w) || math.IsInf(w, 0) || math.Abs(w) > 1e6 || w != math.Round(w) {
					return codeBad
				}
				return int(w)
			}
			e["cen2"] = []interface{}{q(cen.X), q(cen.Y)}
			if a := math.Ldexp(b.Area(), -2*sh); a == math.Round(a) && math.Abs(a) < 1e6 {
				e["area"] = int(a)
			}
		})
		return []Event{e}
	case "line", "len":
		l := geom.LineString(decPath(c["path"], intDec))
		q := decPoint(c["q"], intDec)
		for k := range l {
			l[k].X += off.X
			l[k].Y += off.Y
			l[k] = up(l[k])
		}
		q.X += off.X
		q.Y += off.Y
		q = up(q)
		e := Event{"ev": "line", "len": -1, "lenexact": false, "oplen": -1, "mllen": -1, "d2K": -1, "mld2K": -2}
		e["out"] = safely(func() {
			dn := func(v float64) float64 { return math.Ldexp(v, -sh) }
			ln := dn(l.Length())
			e["len"], e["lenexact"] = int(math.Round(ln)), ln == math.Round(ln)
			e["oplen"] = int(math.Round(dn(op.Length(l))))
			ml := geom.MultiLineString{l, l[:2]} // the path and its first segment
			e["mllen"] = int(math.Round(dn(ml.Length())))
			fin := func(v float64) int { // a non-finite distance has no integer form
				if math.IsNaN(v) || math.IsInf(v, 0) || math.Abs(v) > 1e9 {
					return codeBad
				}
				return int(math.Round(v))
			}
			d := dn(l.Distance(q))
			e["d2K"] = fin(d * d * c03K)
			md := dn(ml.Distance(q))
			e["mld2K"] = fin(md * md * c03K)
		})
		return []Event{e}
	case "near":
		l := geom.LineString(decPath(c["path"], intDec))
		q := decPoint(c["q"], intDec)
		d2 := arr(c["d2"])
		e := Event{"ev": "near", "errscale12": 1 << 30, "mlerrscale12": 1 << 30}
		e["out"] = safely(func() {
			// exact distance from the case's rational squared distance, in 200-bit arithmetic
			t := new(big.Float).SetPrec(200).Quo(new(big.Float).SetPrec(200).SetInt64(int64(num(d2[0]))), new(big.Float).SetPrec(200).SetInt64(int64(num(d2[1]))))
			t.Sqrt(t)
			scale := 0.0
			for _, p := range append([]geom.Point{q}, l...) {
				scale = math.Max(scale, math.Max(math.Abs(p.X), math.Abs(p.Y)))
			}
			rel := func(d float64) int {
				diff := new(big.Float).SetPrec(200).Sub(new(big.Float).SetPrec(200).SetFloat64(d), t)
				f, _ := diff.Abs(diff).Float64()
				v := f / scale * 1e12
				if math.IsNaN(v) || v > 1e9 {
					return 1 << 30
				}
				return int(math.Round(v))
			}
			e["errscale12"] = rel(l.Distance(q))
			e["mlerrscale12"] = rel(geom.MultiLineString{l, l}.Distance(q))
		})
		return []Event{e}
	case "buffer":
		ctr := decPoint(c["c"], intDec)
		r, n := float64(num(c["r"])), num(c["n"])
		e := Event{"ev": "buffer", "count": -1, "firstexact": false, "dist2K": []interface{}{}, "chord2K": []interface{}{}, "turns": []interface{}{}}
		e["out"] = safely(func() {
			b := ctr.Buffer(r, n)
			if len(b) != 1 {
				e["count"] = -len(b)
				return
			}
			ring := b[0]
			if len(ring) > 1 && ring[0] == ring[len(ring)-1] {
				ring = ring[:len(ring)-1]
			}
			e["count"] = len(ring)
			e["firstexact"] = len(ring) > 0 && ring[0].X == ctr.X+r && ring[0].Y == ctr.Y
			var ds, cs, ts []interface{}
			for i, p := range ring {
				nx, nn := ring[(i+1)%len(ring)], ring[(i+2)%len(ring)]
				ds = append(ds, int(math.Round(((p.X-ctr.X)*(p.X-ctr.X)+(p.Y-ctr.Y)*(p.Y-ctr.Y))*1e6)))
				cs = append(cs, int(math.Round(((p.X-nx.X)*(p.X-nx.X)+(p.Y-nx.Y)*(p.Y-nx.Y))*1e6)))
				cr := (nx.X-p.X)*(nn.Y-p.Y) - (nx.Y-p.Y)*(nn.X-p.X)
				t := 0
				if cr > 0 {
					t = 1
				} else if cr < 0 {
					t = -1
				}
				ts = append(ts, t)
			}
			e["dist2K"], e["chord2K"], e["turns"] = ds, cs, ts
		})
		return []Event{e}
	}
	return []Event{{"ev": "unknown"}}
}

// random: staircase shells (always simple) with box holes, random spellings; TLC re-validates the base shape
func randomC03(rng *rand.Rand, n int) []map[string]interface{} {
	out := make([]map[string]interface{}, 0, n)
	for len(out) < n {
		// a staircase polygon: x-monotone steps up along the top, flat bottom
		cols := 2 + rng.Intn(4)
		w := 2 + rng.Intn(2)
		var shell [][2]int
		shell = append(shell, [2]int{0, 0}, [2]int{cols * w, 0})
		hs := make([]int, cols)
		for i := range hs {
			hs[i] = 3 + rng.Intn(8)
		}
		for i := cols - 1; i >= 0; i-- {
			shell = append(shell, [2]int{(i + 1) * w, hs[i]}, [2]int{i * w, hs[i]})
		}
		// drop repeated / collinear duplicates
		var s2 [][2]int
		for _, p := range shell {
			if len(s2) > 0 && s2[len(s2)-1] == p {
				continue
			}
			s2 = append(s2, p)
		}
		if s2[0] == s2[len(s2)-1] {
			s2 = s2[:len(s2)-1]
		}
		shell = s2
		rings := [][][2]int{shell}
		if rng.Intn(2) == 0 && w >= 3 { // a unit box hole in the first column
			rings = append(rings, [][2]int{{1, 1}, {2, 1}, {2, 2}, {1, 2}})
		}
		enc := func(r [][2]int) []interface{} {
			o := make([]interface{}, len(r))
			for i, p := range r {
				o[i] = []interface{}{p[0], p[1]}
			}
			return o
		}
		base := make([]interface{}, len(rings))
		spelled := make([]interface{}, len(rings))
		for i, r := range rings {
			base[i] = enc(r)
			s := append([][2]int{}, r...)
			if rng.Intn(2) == 0 {
				for a, b := 0, len(s)-1; a < b; a, b = a+1, b-1 {
					s[a], s[b] = s[b], s[a]
				}
			}
			k := rng.Intn(len(s))
			s = append(s[k:], s[:k]...)
			if rng.Intn(3) != 0 {
				s = append(s, s[0])
			}
			spelled[i] = enc(s)
		}
		out = append(out, map[string]interface{}{"kind": "shape", "base": []interface{}{base}, "spelled": []interface{}{spelled}})
	}
	return out
}

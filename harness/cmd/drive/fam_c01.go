package main

import (
	"fmt"
	"math"
	"math/rand"
	"reflect"
	"sort"

	"github.com/ctessum/geom"
)

// C01: polygon boolean operations.  Operands arrive in scaled integer coordinates (scale 2 for the
// rectilinear family f1, 4 for the general-position family f2); the harness divides by the scale.
func init() {
	families["c01"] = &Family{Run: runC01, Random: randomC01, Sandbox: true, DeadlineMS: 10000}
}

func buildOperand(v interface{}, typ string, scale float64) geom.Polygonal {
	dec := func(x interface{}) float64 { return float64(num(x)) / scale }
	polys := arr(v)
	switch typ {
	case "Bounds":
		ring := decPath(arr(polys[0])[0], dec)
		b := geom.NewBounds()
		for _, p := range ring {
			b.Extend(geom.NewBoundsPoint(p))
		}
		return b
	case "Polygon":
		return decPolygon(polys[0], dec)
	case "PolygonFlat": // every ring of every member in one Polygon value
		var p geom.Polygon
		for _, m := range polys {
			p = append(p, decPolygon(m, dec)...)
		}
		return p
	case "PolygonHoleFirst": // the rings of the (single) member in reverse order
		p := decPolygon(polys[0], dec)
		for i, j := 0, len(p)-1; i < j; i, j = i+1, j-1 {
			p[i], p[j] = p[j], p[i]
		}
		return p
	}
	mp := make(geom.MultiPolygon, len(polys))
	for i, p := range polys {
		mp[i] = decPolygon(p, dec)
	}
	return mp
}

func applyOp(a, b geom.Polygonal, op string) geom.Polygonal {
	switch op {
	case "Intersection":
		return a.Intersection(b)
	case "Union":
		return a.Union(b)
	case "Difference":
		return a.Difference(b)
	}
	return a.XOr(b)
}

func isNilPolygonal(p geom.Polygonal) bool {
	if p == nil {
		return true
	}
	if b, ok := p.(*geom.Bounds); ok && b == nil {
		return true
	}
	return false
}

// independent even-odd crossing number on float rings (used only for samples with a clear margin)
func inRingsFloat(q geom.Point, rings []geom.Path) bool {
	in := false
	for _, r := range rings {
		n := len(r)
		for i := 0; i < n; i++ {
			a, b := r[i], r[(i+1)%n]
			if (a.Y > q.Y) != (b.Y > q.Y) {
				x := a.X + (q.Y-a.Y)*(b.X-a.X)/(b.Y-a.Y)
				if q.X < x {
					in = !in
				}
			}
		}
	}
	return in
}

func c01Canon(rings []geom.Path) []string {
	out := make([]string, len(rings))
	for i, r := range rings {
		out[i] = fmt.Sprint(r)
	}
	sort.Strings(out)
	return out
}

// c01CloseRings repeats the first vertex of every ring at its end (in place; a *Bounds has no rings)
func c01CloseRings(g geom.Polygonal) {
	closeP := func(p geom.Polygon) {
		for i, r := range p {
			if len(r) > 0 && r[0] != r[len(r)-1] {
				p[i] = append(append(geom.Path{}, r...), r[0])
			}
		}
	}
	switch x := g.(type) {
	case geom.Polygon:
		closeP(x)
	case geom.MultiPolygon:
		for _, p := range x {
			closeP(p)
		}
	}
}

// c01RotateToMax rotates every (unclosed) ring so that it starts at its vertex with the largest x, ties by the largest y
func c01RotateToMax(g geom.Polygonal) {
	rot := func(p geom.Polygon) {
		for i, r := range p {
			if len(r) < 2 || r[0] == r[len(r)-1] {
				continue
			}
			k := 0
			for j, v := range r {
				if v.X > r[k].X || (v.X == r[k].X && v.Y > r[k].Y) {
					k = j
				}
			}
			p[i] = append(append(geom.Path{}, r[k:]...), r[:k]...)
		}
	}
	switch x := g.(type) {
	case geom.Polygon:
		rot(x)
	case geom.MultiPolygon:
		for _, p := range x {
			rot(p)
		}
	}
}

func c01Rings(g geom.Polygonal) [][]geom.Path {
	var out [][]geom.Path
	if isNilPolygonal(g) {
		return out
	}
	for _, p := range g.Polygons() {
		if len(p) == 0 { // a nil ring list and an empty one are the same (no rings)
			out = append(out, []geom.Path{})
			continue
		}
		out = append(out, []geom.Path(p))
	}
	return out
}

// c01ShareStore moves the ring lists of the polygons of both operands (a Polygon's own list, the lists of a
// MultiPolygon's members; a *Bounds has none) into one array, interleaved (A's first, B's first, A's second, ...); every
// polygon keeps its rings but its slice now has the rest of the array as spare capacity.
func c01ShareStore(A, B geom.Polygonal) (geom.Polygonal, geom.Polygonal) {
	members := func(g geom.Polygonal) (geom.Polygonal, []*geom.Polygon) {
		switch x := g.(type) {
		case geom.Polygon:
			p := x
			return nil, []*geom.Polygon{&p}
		case geom.MultiPolygon:
			out := make([]*geom.Polygon, len(x))
			for i := range x {
				out[i] = &x[i]
			}
			return x, out
		}
		return g, nil
	}
	ga, ma := members(A)
	gb, mb := members(B)
	var order []*geom.Polygon
	for i := 0; i < len(ma) || i < len(mb); i++ {
		if i < len(ma) {
			order = append(order, ma[i])
		}
		if i < len(mb) {
			order = append(order, mb[i])
		}
	}
	n := 0
	for _, p := range order {
		n += len(*p)
	}
	store := make([]geom.Path, 0, n)
	for _, p := range order {
		off := len(store)
		store = append(store, (*p)...)
		*p = geom.Polygon(store[off:len(store):cap(store)])
	}
	// likewise the vertices: the rings of all these polygons lie back to back in one array of points, each ring with the
	// rest of the array as spare capacity
	np := 0
	for _, r := range store {
		np += len(r)
	}
	pts := make([]geom.Point, 0, np)
	for i, r := range store {
		off := len(pts)
		pts = append(pts, r...)
		store[i] = geom.Path(pts[off:len(pts):cap(pts)])
	}
	if ga == nil {
		ga = *ma[0]
	}
	if gb == nil {
		gb = *mb[0]
	}
	return ga, gb
}

func runC01(c map[string]interface{}) []Event {
	scale := 2.0
	if str(c["kind"]) == "f2" || str(c["kind"]) == "f2r" {
		scale = 4.0
	}
	isF1 := scale == 2
	if v, ok := c["sh"]; ok { // magnitude shift: operands times 2^sh (exact); results are read back through the same factor
		scale = scale * math.Ldexp(1, -num(v))
	}
	e := Event{"ev": "op", "again": false, "inputsame": false, "rings": []interface{}{}, "integral": true, "pts": []interface{}{}, "inres": []interface{}{}}
	e["out"] = safely(func() {
		A := buildOperand(c["A"], str(c["ta"]), scale)
		B := buildOperand(c["B"], str(c["tb"]), scale)
		// the rings of the operands are spelled without the closing vertex, or (every third case) with it: the same regions
		closedIn := (len(arr(c["A"]))+2*len(arr(c["B"]))+len(str(c["op"]))+int(seed()))%3 == 0
		if closedIn {
			c01CloseRings(A)
			c01CloseRings(B)
		} else if (len(arr(c["A"]))+len(str(c["op"]))+int(seed()))%2 == 0 {
			// unclosed rings may start at any of their vertices: here at the one with the largest x (then largest y)
			c01RotateToMax(A)
			c01RotateToMax(B)
		}
		if (len(arr(c["A"]))+len(arr(c["B"]))+int(seed()))%2 == 0 {
			// the ring lists of all polygons of both operands are sub-slices of one array (as after decoding a whole layer into
			// one buffer), interleaved, each with the rest of the array as spare capacity: the values are what they were
			A, B = c01ShareStore(A, B)
		}
		r := applyOp(A, B, str(c["op"]))
		var rings []geom.Path
		if !isNilPolygonal(r) {
			for _, p := range r.Polygons() {
				rings = append(rings, p...)
			}
		}
		// the same two values are then used for all four operations and for the requested one once more: every call is
		// an instance of the property, so the last result must describe the same region as the first (compared as the
		// multiset of rings: the clipper is deterministic)
		first := c01Canon(rings)
		for _, o := range []string{"Intersection", "Union", "Difference", "XOr"} {
			applyOp(A, B, o)
		}
		var rings2 []geom.Path
		if r2 := applyOp(A, B, str(c["op"])); !isNilPolygonal(r2) {
			for _, p := range r2.Polygons() {
				rings2 = append(rings2, p...)
			}
		}
		e["again"] = reflect.DeepEqual(first, c01Canon(rings2))
		// ... and the operands are still the values they were
		fa, fb := buildOperand(c["A"], str(c["ta"]), scale), buildOperand(c["B"], str(c["tb"]), scale)
		if closedIn {
			c01CloseRings(fa)
			c01CloseRings(fb)
		} else if (len(arr(c["A"]))+len(str(c["op"]))+int(seed()))%2 == 0 {
			c01RotateToMax(fa)
			c01RotateToMax(fb)
		}
		e["inputsame"] = reflect.DeepEqual(c01Rings(A), c01Rings(fa)) && reflect.DeepEqual(c01Rings(B), c01Rings(fb))
		if isF1 {
			out := make([]interface{}, len(rings))
			for i, ring := range rings {
				rr := make([]interface{}, len(ring))
				for j, p := range ring {
					x, y := p.X*scale, p.Y*scale
					if x != math.Trunc(x) || y != math.Trunc(y) {
						e["integral"] = false
					}
					rr[j] = []interface{}{int(math.Round(x)), int(math.Round(y))}
				}
				out[i] = rr
			}
			e["rings"] = out
			return
		}
		// f2: closedness is reported through the first/last vertex of each ring (exact copies in the code),
		// membership of integer sample points (x4 coordinates) by the independent crossing routine
		out := make([]interface{}, len(rings))
		for i, ring := range rings {
			if len(ring) > 0 && ring[0] == ring[len(ring)-1] {
				out[i] = []interface{}{[]interface{}{0, 0}, []interface{}{0, 0}}
			} else {
				out[i] = []interface{}{[]interface{}{0, 0}, []interface{}{1, 1}}
			}
		}
		e["rings"] = out
		w := num(c["w"])
		var inres []interface{}
		for x := -1; x <= w+1; x++ { // x outer, y inner: the order the trace specification assumes
			for y := -1; y <= w+1; y++ {
				inres = append(inres, inRingsFloat(geom.Point{X: float64(x) / scale, Y: float64(y) / scale}, rings))
			}
		}
		e["inres"] = inres
	})
	return []Event{e}
}

// random rectilinear operands on bigger even/odd lattices: unions of boxes are not needed - a random box, a box with a
// random hole, or two apart boxes per operand, in a window of up to 24 cells
func randomC01(rng *rand.Rand, n int) []map[string]interface{} {
	ops := []string{"Intersection", "Union", "Difference", "XOr"}
	box := func(x1, y1, x2, y2 int) []interface{} {
		return []interface{}{[]interface{}{x1, y1}, []interface{}{x2, y1}, []interface{}{x2, y2}, []interface{}{x1, y2}}
	}
	operand := func(off, ncoord int) (interface{}, []string) {
		co := func(k int) int { return off + 4*k }
		pick2 := func(lo, hi int) (int, int) {
			a, b := lo+rng.Intn(hi-lo+1), lo+rng.Intn(hi-lo+1)
			for a == b {
				b = lo + rng.Intn(hi-lo+1)
			}
			if a > b {
				a, b = b, a
			}
			return a, b
		}
		switch rng.Intn(3) {
		case 0:
			x1, x2 := pick2(0, ncoord-1)
			y1, y2 := pick2(0, ncoord-1)
			return []interface{}{[]interface{}{box(co(x1), co(y1), co(x2), co(y2))}}, []string{"Polygon", "MultiPolygon", "Bounds"}
		case 1:
			if ncoord >= 4 {
				x1, x2 := pick2(0, ncoord-1)
				y1, y2 := pick2(0, ncoord-1)
				if x2-x1 >= 3 && y2-y1 >= 3 {
					hx1, hx2 := pick2(x1+1, x2-1)
					hy1, hy2 := pick2(y1+1, y2-1)
					return []interface{}{[]interface{}{box(co(x1), co(y1), co(x2), co(y2)), box(co(hx1), co(hy1), co(hx2), co(hy2))}}, []string{"Polygon", "MultiPolygon"}
				}
			}
			fallthrough
		default:
			h := ncoord / 2
			if h < 2 {
				x1, x2 := pick2(0, ncoord-1)
				y1, y2 := pick2(0, ncoord-1)
				return []interface{}{[]interface{}{box(co(x1), co(y1), co(x2), co(y2))}}, []string{"Polygon", "MultiPolygon", "Bounds"}
			}
			x1, x2 := pick2(0, h-1)
			x3, x4 := pick2(h, ncoord-1)
			y1, y2 := pick2(0, ncoord-1)
			y3, y4 := pick2(0, ncoord-1)
			return []interface{}{[]interface{}{box(co(x1), co(y1), co(x2), co(y2))}, []interface{}{box(co(x3), co(y3), co(x4), co(y4))}}, []string{"MultiPolygon"}
		}
	}
	out := make([]map[string]interface{}, n)
	for i := range out {
		nc := 3 + rng.Intn(5)
		A, ta := operand(0, nc)
		B, tb := operand(2, nc-1)
		out[i] = map[string]interface{}{"kind": "f1", "op": ops[rng.Intn(4)], "A": A, "B": B,
			"ta": ta[rng.Intn(len(ta))], "tb": tb[rng.Intn(len(tb))], "w": 4 * (nc - 1)}
	}
	return out
}

package main

import (
	"encoding/json"
	"fmt"
	"math"

	"github.com/ctessum/geom"
)

// safely runs f and converts a panic into an outcome string ("ok" or "panic:<msg>").
func safely(f func()) (out string) {
	defer func() {
		if r := recover(); r != nil {
			s := fmt.Sprint(r)
			if len(s) > 120 {
				s = s[:120]
			}
			out = "panic:" + s
		}
	}()
	f()
	return "ok"
}

func num(v interface{}) int {
	switch x := v.(type) {
	case json.Number:
		i, err := x.Int64()
		if err != nil {
			f, _ := x.Float64()
			return int(f)
		}
		return int(i)
	case float64:
		return int(x)
	case int:
		return x
	}
	panic(fmt.Sprintf("num: %T %v", v, v))
}

func arr(v interface{}) []interface{} {
	if v == nil {
		return nil
	}
	return v.([]interface{})
}

func str(v interface{}) string { s, _ := v.(string); return s }

// Coordinate codes shared with the specs (BoundsIter.tla etc.): integers, with
// +-1000 standing for the infinities and 7777 for IEEE negative zero.
const (
	codePInf    = 1000
	codeNInf    = -1000
	codeNegZero = 7777
	codeBad     = -99999
)

func codeToFloat(c int) float64 {
	switch c {
	case codePInf:
		return math.Inf(1)
	case codeNInf:
		return math.Inf(-1)
	case codeNegZero:
		return math.Copysign(0, -1)
	}
	return float64(c)
}

// floatToCode is exact: -0 is distinguished from 0.
func floatToCode(f float64) int {
	switch {
	case math.IsInf(f, 1):
		return codePInf
	case math.IsInf(f, -1):
		return codeNInf
	case f == 0 && math.Signbit(f):
		return codeNegZero
	case f != math.Trunc(f) || math.IsNaN(f) || math.Abs(f) > 1e9:
		return codeBad
	}
	return int(f)
}

// floatToNum is numeric: -0 and 0 are the same number.
func floatToNum(f float64) int {
	c := floatToCode(f)
	if c == codeNegZero {
		return 0
	}
	return c
}

type coordDec func(v interface{}) float64

func codeDec(v interface{}) float64 { return codeToFloat(num(v)) }
func intDec(v interface{}) float64  { return float64(num(v)) }

func decPoint(v interface{}, dec coordDec) geom.Point {
	a := arr(v)
	return geom.Point{X: dec(a[0]), Y: dec(a[1])}
}

func decPath(v interface{}, dec coordDec) []geom.Point {
	a := arr(v)
	out := make([]geom.Point, len(a))
	for i, p := range a {
		out[i] = decPoint(p, dec)
	}
	return out
}

func decPolygon(v interface{}, dec coordDec) geom.Polygon {
	a := arr(v)
	out := make(geom.Polygon, len(a))
	for i, r := range a {
		out[i] = decPath(r, dec)
	}
	return out
}

// decGeom builds a real geometry from the spec's tree value {"t":type,"m":...}.
func decGeom(v interface{}, dec coordDec) geom.Geom {
	m := v.(map[string]interface{})
	switch str(m["t"]) {
	case "Point":
		return decPoint(m["m"], dec)
	case "MultiPoint":
		return geom.MultiPoint(decPath(m["m"], dec))
	case "LineString":
		return geom.LineString(decPath(m["m"], dec))
	case "MultiLineString":
		a := arr(m["m"])
		out := make(geom.MultiLineString, len(a))
		for i, l := range a {
			out[i] = geom.LineString(decPath(l, dec))
		}
		return out
	case "Polygon":
		return decPolygon(m["m"], dec)
	case "MultiPolygon":
		a := arr(m["m"])
		out := make(geom.MultiPolygon, len(a))
		for i, p := range a {
			out[i] = decPolygon(p, dec)
		}
		return out
	case "GeometryCollection":
		a := arr(m["m"])
		out := make(geom.GeometryCollection, len(a))
		for i, g := range a {
			out[i] = decGeom(g, dec)
		}
		return out
	case "Bounds":
		a := arr(m["m"])
		return &geom.Bounds{Min: decPoint(a[0], dec), Max: decPoint(a[1], dec)}
	}
	panic("decGeom: unknown type " + str(m["t"]))
}

type coordEnc func(f float64) interface{}

func encPoint(p geom.Point, enc coordEnc) []interface{} {
	return []interface{}{enc(p.X), enc(p.Y)}
}

func encPath(ps []geom.Point, enc coordEnc) []interface{} {
	out := make([]interface{}, len(ps))
	for i, p := range ps {
		out[i] = encPoint(p, enc)
	}
	return out
}

// encGeom projects a real geometry to the spec's tree value.
func encGeom(g geom.Geom, enc coordEnc) interface{} {
	G := func(t string, m interface{}) map[string]interface{} { return map[string]interface{}{"t": t, "m": m} }
	switch x := g.(type) {
	case geom.Point:
		return G("Point", encPoint(x, enc))
	case *geom.Point:
		return G("Point", encPoint(*x, enc))
	case geom.MultiPoint:
		return G("MultiPoint", encPath(x, enc))
	case geom.LineString:
		return G("LineString", encPath(x, enc))
	case geom.MultiLineString:
		out := make([]interface{}, len(x))
		for i, l := range x {
			out[i] = encPath(l, enc)
		}
		return G("MultiLineString", out)
	case geom.Polygon:
		out := make([]interface{}, len(x))
		for i, r := range x {
			out[i] = encPath(r, enc)
		}
		return G("Polygon", out)
	case geom.MultiPolygon:
		out := make([]interface{}, len(x))
		for i, p := range x {
			rs := make([]interface{}, len(p))
			for j, r := range p {
				rs[j] = encPath(r, enc)
			}
			out[i] = rs
		}
		return G("MultiPolygon", out)
	case geom.GeometryCollection:
		out := make([]interface{}, len(x))
		for i, m := range x {
			out[i] = encGeom(m, enc)
		}
		return G("GeometryCollection", out)
	case *geom.Bounds:
		if x == nil {
			return G("nil", []interface{}{})
		}
		return G("Bounds", []interface{}{encPoint(x.Min, enc), encPoint(x.Max, enc)})
	case nil:
		return G("nil", []interface{}{})
	}
	return G(fmt.Sprintf("%T", g), []interface{}{})
}

func codeEnc(f float64) interface{} { return floatToCode(f) }
func numEnc(f float64) interface{}  { return floatToNum(f) }

func encBox(b *geom.Bounds, enc coordEnc) []interface{} {
	return []interface{}{encPoint(b.Min, enc), encPoint(b.Max, enc)}
}

func decBox(v interface{}, dec coordDec) *geom.Bounds {
	a := arr(v)
	return &geom.Bounds{Min: decPoint(a[0], dec), Max: decPoint(a[1], dec)}
}

package main

import (
	"math/rand"
)

// C15: g.Similar(h, tol) and h.Similar(g, tol).
func init() {
	families["c15"] = &Family{Run: runC15, Random: randomC15}
}

func runC15(c map[string]interface{}) []Event {
	e := Event{"ev": "similar", "gh": false, "hg": false}
	e["out"] = safely(func() {
		g := decGeom(c["g"], intDec)
		h := decGeom(c["h"], intDec)
		tol := float64(num(c["tol"]))
		e["gh"] = g.Similar(h, tol)
		e["hg"] = h.Similar(g, tol)
	})
	return []Event{e}
}

// random multi-geometries with members on a coarse grid (far apart), random permutation + jitter or one displaced vertex
func randomC15(rng *rand.Rand, n int) []map[string]interface{} {
	out := make([]map[string]interface{}, n)
	G := func(t string, m interface{}) map[string]interface{} { return map[string]interface{}{"t": t, "m": m} }
	for i := range out {
		nm := 1 + rng.Intn(4)
		tol := 10
		mkRing := func(ox, oy int) []interface{} {
			k := 3 + rng.Intn(3)
			r := make([]interface{}, 0, k+1)
			for j := 0; j < k; j++ {
				r = append(r, []interface{}{ox + rng.Intn(8)*50, oy + rng.Intn(8)*50 + j})
			}
			return append(r, r[0])
		}
		var members []interface{}
		for m := 0; m < nm; m++ {
			members = append(members, []interface{}{mkRing(m*2000, 0), mkRing(m*2000+600, 900)})
		}
		jig := func(v interface{}, amp int) interface{} {
			var f func(x interface{}) interface{}
			f = func(x interface{}) interface{} {
				a := x.([]interface{})
				if len(a) == 2 {
					if _, ok := a[0].(int); ok {
						return []interface{}{a[0].(int) + rng.Intn(2*amp+1) - amp, a[1].(int) + rng.Intn(2*amp+1) - amp}
					}
				}
				o := make([]interface{}, len(a))
				for i := range a {
					o[i] = f(a[i])
				}
				return o
			}
			return f(v)
		}
		h := make([]interface{}, len(members))
		copy(h, members)
		rng.Shuffle(len(h), func(a, b int) { h[a], h[b] = h[b], h[a] })
		var hm interface{} = h
		switch rng.Intn(4) {
		case 0: // open rings jittered independently would un-close them: keep exact copy, permuted
		case 1:
			if len(h) > 1 {
				hm = h[:len(h)-1]
			}
		case 2:
			hm = append(append([]interface{}{}, h...), []interface{}{mkRing(90000, 90000)})
		case 3:
			// displace one vertex of the first ring of the first member beyond the tolerance (and its closing twin)
			first := h[0].([]interface{})
			ring := append([]interface{}{}, first[0].([]interface{})...)
			v := ring[1].([]interface{})
			ring[1] = []interface{}{v[0].(int) + tol + 1 + rng.Intn(30), v[1]}
			h0 := append([]interface{}{ring}, first[1:]...)
			hh := append([]interface{}{}, h...)
			hh[0] = h0
			hm = hh
		}
		_ = jig
		out[i] = map[string]interface{}{"kind": "sim", "g": G("MultiPolygon", members), "h": G("MultiPolygon", hm), "tol": tol}
	}
	return out
}

package main

import (
	"math"
	"math/rand"
	"reflect"

	"github.com/ctessum/geom"
)

// C15: g.Similar(h, tol) and h.Similar(g, tol).
func init() {
	families["c15"] = &Family{Run: runC15, Random: randomC15}
}

func runC15(c map[string]interface{}) []Event {
	e := Event{"ev": "similar", "gh": false, "hg": false, "agh": false, "ahg": false, "inputsame": false}
	e["out"] = safely(func() {
		// "sh": coordinates and tolerance times 2^sh (exact)
		sh := 0
		if v, ok := c["sh"]; ok {
			sh = num(v)
		}
		dec := func(v interface{}) float64 { return math.Ldexp(float64(num(v)), sh) }
		g := decGeom(c["g"], dec)
		h := decGeom(c["h"], dec)
		tol := math.Ldexp(float64(num(c["tol"])), sh)
		// every other case: the vertex lists of each geometry lie back to back in one array of points (as a decoder that
		// allocates all vertices at once leaves them), each list with the rest of the array as spare capacity
		if (len(str(c["g"].(map[string]interface{})["t"]))+int(seed()))%2 == 0 {
			c15Share(g)
			c15Share(h)
		}
		e["gh"] = g.Similar(h, tol)
		e["hg"] = h.Similar(g, tol)
		// neither operand has been written to
		e["inputsame"] = reflect.DeepEqual(g, decGeom(c["g"], dec)) && reflect.DeepEqual(h, decGeom(c["h"], dec))
		e["agh"], e["ahg"] = e["gh"], e["hg"]
		// when one geometry is the other with trailing members removed, the same comparison is also made between values that
		// share their storage (the shorter one is a re-slice of the longer): the answer is about the values
		gv, hv := reflect.ValueOf(g), reflect.ValueOf(h)
		if gv.Kind() == reflect.Slice && gv.Type() == hv.Type() && gv.Len() != hv.Len() {
			long, short, swapped := gv, hv, false
			if hv.Len() > gv.Len() {
				long, short, swapped = hv, gv, true
			}
			pre := long.Slice(0, short.Len())
			if short.Len() > 0 && reflect.DeepEqual(pre.Interface(), short.Interface()) {
				lg, sg := long.Interface().(geom.Geom), pre.Interface().(geom.Geom)
				a, b := lg.Similar(sg, tol), sg.Similar(lg, tol)
				if swapped {
					a, b = b, a
				}
				e["agh"], e["ahg"] = a, b
			}
		}
	})
	return []Event{e}
}

// c15Share re-homes every vertex list of g (in place) into one shared array of points
func c15Share(g geom.Geom) {
	var lists []*[]geom.Point
	var walk func(g geom.Geom)
	walk = func(g geom.Geom) {
		switch x := g.(type) {
		case geom.MultiLineString:
			for i := range x {
				lists = append(lists, (*[]geom.Point)(&x[i]))
			}
		case geom.Polygon:
			for i := range x {
				lists = append(lists, (*[]geom.Point)(&x[i]))
			}
		case geom.MultiPolygon:
			for _, p := range x {
				for i := range p {
					lists = append(lists, (*[]geom.Point)(&p[i]))
				}
			}
		case geom.GeometryCollection:
			for _, m := range x {
				walk(m)
			}
		}
	}
	walk(g)
	n := 0
	for _, l := range lists {
		n += len(*l)
	}
	pts := make([]geom.Point, 0, n)
	for _, l := range lists {
		off := len(pts)
		pts = append(pts, (*l)...)
		*l = pts[off:len(pts):cap(pts)]
	}
}

// random multi-geometries with members on a coarse grid (far apart), random permutation + jitter or one displaced vertex
func randomC15(rng *rand.Rand, n int) []map[string]interface{} {
	out := make([]map[string]interface{}, n)
	G := func(t string, m interface{}) map[string]interface{} { return map[string]interface{}{"t": t, "m": m} }
	for i := range out {
		nm := 1 + rng.Intn(4)
		tol := 10
		mkRing := func(ox, oy int) []interface{} {
			k := 3 + rng.Intn(3)
			r := make([]interface{}, 0, k+1)
			for j := 0; j < k; j++ {
				r = append(r, []interface{}{ox + rng.Intn(8)*50, oy + rng.Intn(8)*50 + j})
			}
			return append(r, r[0])
		}
		var members []interface{}
		for m := 0; m < nm; m++ {
			members = append(members, []interface{}{mkRing(m*2000, 0), mkRing(m*2000+600, 900)})
		}
		jig := func(v interface{}, amp int) interface{} {
			var f func(x interface{}) interface{}
			f = func(x interface{}) interface{} {
				a := x.([]interface{})
				if len(a) == 2 {
					if _, ok := a[0].(int); ok {
						return []interface{}{a[0].(int) + rng.Intn(2*amp+1) - amp, a[1].(int) + rng.Intn(2*amp+1) - amp}
					}
				}
				o := make([]interface{}, len(a))
				for i := range a {
					o[i] = f(a[i])
				}
				return o
			}
			return f(v)
		}
		h := make([]interface{}, len(members))
		copy(h, members)
		rng.Shuffle(len(h), func(a, b int) { h[a], h[b] = h[b], h[a] })
		var hm interface{} = h
		switch rng.Intn(4) {
		case 0: // open rings jittered independently would un-close them: keep exact copy, permuted
		case 1:
			if len(h) > 1 {
				hm = h[:len(h)-1]
			}
		case 2:
			hm = append(append([]interface{}{}, h...), []interface{}{mkRing(90000, 90000)})
		case 3:
			// displace one vertex of the first ring of the first member beyond the tolerance (and its closing twin)
			first := h[0].([]interface{})
			ring := append([]interface{}{}, first[0].([]interface{})...)
			v := ring[1].([]interface{})
			ring[1] = []interface{}{v[0].(int) + tol + 1 + rng.Intn(30), v[1]}
			h0 := append([]interface{}{ring}, first[1:]...)
			hh := append([]interface{}{}, h...)
			hh[0] = h0
			hm = hh
		}
		_ = jig
		out[i] = map[string]interface{}{"kind": "sim", "g": G("MultiPolygon", members), "h": G("MultiPolygon", hm), "tol": tol}
	}
	return out
}

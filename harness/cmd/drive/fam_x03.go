package main

import (
	"fmt"
	"math"
	"math/rand"
	"strconv"

	"github.com/ctessum/geom/proj"
)

// X03 (extension family): the outer stages of the proj transformation closure (+axis, +to_meter) around the
// projection kernels.  For a configuration the real output of the variant pair of references is compared with the
// real output of the plain pair; the sign per coordinate and the binary exponent of the ratio are reported.
func init() {
	families["x03"] = &Family{Run: runX03, Random: func(rng *rand.Rand, n int) []map[string]interface{} { return nil }, Sandbox: true, DeadlineMS: 10000}
}

var x03Defs = map[string]string{
	"ll":   "+proj=longlat +datum=WGS84",
	"merc": "+proj=merc +lon_0=0 +k=1 +x_0=0 +y_0=0 +datum=WGS84",
	"utm":  "+proj=utm +zone=32 +datum=WGS84",
	"lcc":  "+proj=lcc +lat_1=43 +lat_2=49 +lat_0=40 +lon_0=5 +x_0=0 +y_0=0 +datum=WGS84",
}
var x03AxisSign = map[string][2]float64{"enu": {1, 1}, "wnu": {-1, 1}, "esu": {1, -1}, "wsu": {-1, -1}, "neu": {1, 1}, "swu": {-1, -1}, "nwu": {1, -1}, "une": {1, 1}, "wdn": {-1, 1}, "dse": {1, -1}}

func x03Ref(kind, axis string, exp int) (*proj.SR, error) {
	s := x03Defs[kind]
	if axis != "enu" {
		s += " +axis=" + axis
	}
	if exp != 0 {
		s += " +to_meter=" + strconv.FormatFloat(math.Ldexp(1, exp), 'g', -1, 64)
	}
	return proj.Parse(s + " +no_defs")
}

// a nil Transformer is the identity (NewTransform's contract for equal references)
func x03Apply(a, b *proj.SR, x, y float64) (float64, float64, error) {
	t, err := a.NewTransform(b)
	if err != nil {
		return 0, 0, err
	}
	if t == nil {
		return x, y, nil
	}
	return t(x, y)
}

func runX03(c map[string]interface{}) []Event {
	cfg := c["cfg"].(map[string]interface{})
	sk, dk, sa, da := str(cfg["sk"]), str(cfg["dk"]), str(cfg["sa"]), str(cfg["da"])
	se, de := num(cfg["se"]), num(cfg["de"])
	e := Event{"ev": "pipe", "err": "", "rel": []interface{}{}}
	e["out"] = safely(func() {
		fail := func(what string, err error) { e["err"] = what + ": " + err.Error() }
		ll, err := x03Ref("ll", "enu", 0)
		if err != nil {
			fail("ll", err)
			return
		}
		s0, err := x03Ref(sk, "enu", 0)
		if err != nil {
			fail("plain source", err)
			return
		}
		d0, err := x03Ref(dk, "enu", 0)
		if err != nil {
			fail("plain destination", err)
			return
		}
		s1, err := x03Ref(sk, sa, se)
		if err != nil {
			fail("source", err)
			return
		}
		d1, err := x03Ref(dk, da, de)
		if err != nil {
			fail("destination", err)
			return
		}
		var rel []interface{}
		for _, pos := range [][2]float64{{9.7, 47.3}, {11.25, 44.5}, {7.125, 51.0625}} {
			// the canonical source coordinates of the position, and the canonical result
			X, Y, err := x03Apply(ll, s0, pos[0], pos[1])
			if err != nil {
				fail("to plain source", err)
				return
			}
			U, V, err := x03Apply(s0, d0, X, Y)
			if err != nil {
				fail("plain pair", err)
				return
			}
			// the same position as the variant source writes it
			k := -se
			if sk == "ll" {
				k = 0
			}
			sg := x03AxisSign[sa]
			u, v, err := x03Apply(s1, d1, sg[0]*math.Ldexp(X, k), sg[1]*math.Ldexp(Y, k))
			if err != nil {
				fail("variant pair", err)
				return
			}
			// which sign and exponent relate (u, v) to (U, V)?  (the same exponent for both coordinates)
			found := []interface{}{0, 0, 99}
			n := 0
			for _, sx := range []float64{1, -1} {
				for _, sy := range []float64{1, -1} {
					for kk := -6; kk <= 6; kk++ {
						wu, wv := sx*math.Ldexp(U, kk), sy*math.Ldexp(V, kk)
						if math.Abs(u-wu) <= 1e-9*math.Max(1, math.Abs(wu)) && math.Abs(v-wv) <= 1e-9*math.Max(1, math.Abs(wv)) {
							found = []interface{}{int(sx), int(sy), kk}
							n++
						}
					}
				}
			}
			if n != 1 {
				found = []interface{}{0, n, 99}
				if e["err"] == "" {
					e["note"] = fmt.Sprintf("plain (%v,%v) variant (%v,%v)", U, V, u, v)
				}
			}
			rel = append(rel, found)
		}
		e["rel"] = rel
	})
	return []Event{e}
}

// Command drive binds the TLA+ specifications under /verif/spec to the real
// ctessum/geom code: it replays TLC-generated cases / behaviours on the
// implementation (or generates seeded random ones) and records what the code
// did as an NDJSON trace that TLC then validates against the trace spec.
//
//	drive <family> replay <cases.ndjson> <trace.ndjson>
//	drive <family> random <n> <trace.ndjson>
//	drive __child <family>           (sandbox child, see sandbox.go)
//
// A recording is: one {"ev":"reset","case":k,...case fields...} line followed
// by the events the family produced for that case.
package main

import (
	"bufio"
	"encoding/json"
	"fmt"
	"math/rand"
	"os"
	"strconv"
)

// Event is one trace line.
type Event map[string]interface{}

// Family is one specification family's binding to the code.
type Family struct {
	// Run executes one case on the real code and returns the events observed.
	Run func(c map[string]interface{}) []Event
	// Random produces n seeded random cases (same JSON shape as TLC's).
	Random func(rng *rand.Rand, n int) []map[string]interface{}
	// Sandbox: run every case in a child process (hang / OOM / fatal error protection).
	Sandbox bool
	// DeadlineMS per case when sandboxed (default 5000).
	DeadlineMS int
	// Prepare completes a TLC-generated case with observations only the harness can make
	// (e.g. answers of freshly built objects) before it is run and recorded.
	Prepare func(c map[string]interface{}) map[string]interface{}
}

var families = map[string]*Family{}

func seed() int64 {
	s, err := strconv.ParseInt(os.Getenv("VERIF_SEED"), 10, 64)
	if err != nil {
		return 1
	}
	return s
}

func die(format string, a ...interface{}) {
	fmt.Fprintf(os.Stderr, format+"\n", a...)
	os.Exit(2)
}

func readCases(path string) []map[string]interface{} {
	f, err := os.Open(path)
	if err != nil {
		die("open cases: %v", err)
	}
	defer f.Close()
	var out []map[string]interface{}
	sc := bufio.NewScanner(f)
	sc.Buffer(make([]byte, 1<<20), 1<<28)
	for sc.Scan() {
		if len(sc.Bytes()) == 0 {
			continue
		}
		var m map[string]interface{}
		d := json.NewDecoder(bytesReader(sc.Bytes()))
		d.UseNumber()
		if err := d.Decode(&m); err != nil {
			die("bad case line: %v: %s", err, sc.Text())
		}
		out = append(out, m)
	}
	return out
}

func main() {
	if len(os.Args) >= 3 && os.Args[1] == "__child" {
		childMain(os.Args[2])
		return
	}
	if len(os.Args) < 5 {
		die("usage: drive <family> replay <cases> <trace> | random <n> <trace>")
	}
	fam, ok := families[os.Args[1]]
	if !ok {
		die("unknown family %q", os.Args[1])
	}
	var cases []map[string]interface{}
	switch os.Args[2] {
	case "replay":
		cases = readCases(os.Args[3])
		if fam.Prepare != nil {
			for i, c := range cases {
				b, _ := json.Marshal(fam.Prepare(c))
				var m map[string]interface{}
				d := json.NewDecoder(bytesReader(b))
				d.UseNumber()
				d.Decode(&m)
				cases[i] = m
			}
		}
	case "random":
		n, _ := strconv.Atoi(os.Args[3])
		if fam.Random == nil {
			die("family has no random driver")
		}
		cases = fam.Random(rand.New(rand.NewSource(seed())), n)
		// round-trip through JSON so that Run sees the same value kinds as in replay mode
		for i, c := range cases {
			b, _ := json.Marshal(c)
			var m map[string]interface{}
			d := json.NewDecoder(bytesReader(b))
			d.UseNumber()
			d.Decode(&m)
			cases[i] = m
		}
	default:
		die("unknown mode %q", os.Args[2])
	}
	out, err := os.Create(os.Args[4])
	if err != nil {
		die("create trace: %v", err)
	}
	w := bufio.NewWriterSize(out, 1<<20)
	enc := json.NewEncoder(w)
	var run func(c map[string]interface{}) []Event
	if fam.Sandbox {
		sb := newSandbox(os.Args[1], fam)
		defer sb.close()
		run = sb.run
	} else {
		run = fam.Run
	}
	nev := 0
	for k, c := range cases {
		r := Event{"ev": "reset", "case": k}
		for kk, v := range c {
			if kk != "ev" && kk != "case" {
				r[kk] = v
			}
		}
		enc.Encode(r)
		for _, e := range run(c) {
			enc.Encode(noNulls(map[string]interface{}(e)))
			nev++
		}
	}
	w.Flush()
	out.Close()
	fmt.Printf("cases=%d events=%d\n", len(cases), nev)
}

// noNulls replaces nil values (nil slices, nil maps, nil interfaces) by empty arrays: the trace reader of TLC has no null, and a
// recorded "nothing" has to be a value that a trace specification can compare.
func noNulls(v interface{}) interface{} {
	switch t := v.(type) {
	case nil:
		return []interface{}{}
	case map[string]interface{}:
		for k, x := range t {
			t[k] = noNulls(x)
		}
		return t
	case Event:
		for k, x := range t {
			t[k] = noNulls(x)
		}
		return t
	case []interface{}:
		if t == nil {
			return []interface{}{}
		}
		for i, x := range t {
			t[i] = noNulls(x)
		}
		return t
	}
	return v
}

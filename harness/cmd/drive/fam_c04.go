package main

import (
	"math/rand"

	"github.com/ctessum/geom"
)

// C04: Len / Bounds / Points on every geometry type, and the box algebra.
func init() {
	families["c04"] = &Family{Run: runC04, Random: randomC04}
}

func runC04(c map[string]interface{}) []Event {
	switch str(c["kind"]) {
	case "geom":
		var g geom.Geom
		var evs []Event
		if out := safely(func() { g = decGeom(c["g"], codeDec) }); out != "ok" {
			return []Event{{"ev": "build", "out": out}}
		}
		n := 0
		out := safely(func() { n = g.Len() })
		evs = append(evs, Event{"ev": "len", "n": n, "out": out})
		var b *geom.Bounds
		out = safely(func() { b = g.Bounds() })
		if out == "ok" && b != nil {
			evs = append(evs, Event{"ev": "bounds", "box": encBox(b, numEnc), "empty": b.Empty(), "out": out})
		} else {
			evs = append(evs, Event{"ev": "bounds", "box": []interface{}{}, "empty": false, "out": out + "/nil"})
		}
		pts := []interface{}{}
		out = safely(func() {
			it := g.Points()
			for i := 0; i < n; i++ {
				pts = append(pts, encPoint(it(), codeEnc))
			}
		})
		evs = append(evs, Event{"ev": "points", "pts": pts, "out": out})
		// the box that Bounds returned is the caller's: it is grown here, as callers do (b := g.Bounds(); b.Extend(...)).
		// Nothing that a later Bounds call answers may depend on that (a *Bounds is its own box, and is left alone).
		if _, isBox := g.(*geom.Bounds); !isBox && b != nil {
			safely(func() {
				b.Extend(&geom.Bounds{Min: geom.Point{X: -1e6, Y: -1e6}, Max: geom.Point{X: 1e6, Y: 1e6}})
			})
		}
		return evs
	case "box2":
		a, b := decBox(c["a"], codeDec), decBox(c["b"], codeDec)
		e := Event{"ev": "box2"}
		e["out"] = safely(func() {
			x := a.Copy()
			x.Extend(b)
			e["ext"] = encBox(x, numEnc)
			e["ovl"] = a.Overlaps(b)
			is := a.Intersection(b)
			if is == nil {
				e["isect"] = []interface{}{}
			} else if ib, ok := is.(*geom.Bounds); ok && ib != nil {
				e["isect"] = []interface{}{encBox(ib, numEnc)}
			} else if ok {
				e["isect"] = []interface{}{}
			} else {
				e["isect"] = []interface{}{encBox(is.Bounds(), numEnc), "notbounds"}
			}
			e["emptya"] = a.Empty()
			e["copya"] = encBox(a.Copy(), codeEnc)
			e["aafter"] = encBox(a, codeEnc)
			e["bafter"] = encBox(b, codeEnc)
		})
		return []Event{e}
	case "boxext":
		a, b := decBox(c["a"], codeDec), decBox(c["b"], codeDec)
		e := Event{"ev": "boxext"}
		e["out"] = safely(func() {
			e["emptyb"] = b.Empty()
			x := a.Copy()
			x.Extend(b)
			e["ext"] = encBox(x, numEnc)
			e["bafter"] = encBox(b, codeEnc)
		})
		return []Event{e}
	case "box3":
		a, b, cc := decBox(c["a"], codeDec), decBox(c["b"], codeDec), decBox(c["c"], codeDec)
		e := Event{"ev": "box3"}
		e["out"] = safely(func() {
			x := a.Copy()
			x.Extend(b)
			x.Extend(cc)
			e["ext1"] = encBox(x, numEnc)
			y := b.Copy()
			y.Extend(cc)
			z := a.Copy()
			z.Extend(y)
			e["ext2"] = encBox(z, numEnc)
			e["isect"] = []interface{}{}
			if ab := a.Intersection(b); ab != nil {
				if abb, ok := ab.(*geom.Bounds); ok && abb != nil {
					if r := abb.Intersection(cc); r != nil {
						if rb, ok := r.(*geom.Bounds); ok && rb != nil {
							e["isect"] = []interface{}{encBox(rb, numEnc)}
						}
					}
				}
			}
		})
		return []Event{e}
	}
	return []Event{{"ev": "unknown", "out": "bad case kind"}}
}

// random deep collections with many vertices; coordinates from a larger pool
func randomC04(rng *rand.Rand, n int) []map[string]interface{} {
	pool := []int{codeNInf, -50, -3, -2, codeNegZero, 0, 1, 2, 17, 999, codePInf}
	pt := func() interface{} {
		return []interface{}{pool[rng.Intn(len(pool))], pool[rng.Intn(len(pool))]}
	}
	path := func(max int) []interface{} {
		k := rng.Intn(max + 1)
		if rng.Intn(3) == 0 {
			k = 0
		}
		out := make([]interface{}, k)
		for i := range out {
			out[i] = pt()
		}
		return out
	}
	paths := func(maxm, maxp int) []interface{} {
		k := rng.Intn(maxm + 1)
		out := make([]interface{}, k)
		for i := range out {
			out[i] = path(maxp)
		}
		return out
	}
	G := func(t string, m interface{}) map[string]interface{} { return map[string]interface{}{"t": t, "m": m} }
	var gen func(depth int) map[string]interface{}
	gen = func(depth int) map[string]interface{} {
		k := rng.Intn(8)
		if depth <= 0 && k == 6 {
			k = rng.Intn(6)
		}
		switch k {
		case 0:
			return G("Point", pt())
		case 1:
			return G("MultiPoint", path(6))
		case 2:
			return G("LineString", path(6))
		case 3:
			return G("MultiLineString", paths(6, 5))
		case 4:
			return G("Polygon", paths(6, 5))
		case 5:
			m := make([]interface{}, rng.Intn(5))
			for i := range m {
				m[i] = paths(4, 4)
			}
			return G("MultiPolygon", m)
		case 6:
			m := make([]interface{}, rng.Intn(6))
			for i := range m {
				m[i] = gen(depth - 1)
			}
			return G("GeometryCollection", m)
		default:
			x1, x2 := rng.Intn(20)-10, rng.Intn(20)-10
			y1, y2 := rng.Intn(20)-10, rng.Intn(20)-10
			if x1 > x2 {
				x1, x2 = x2, x1
			}
			if y1 > y2 {
				y1, y2 = y2, y1
			}
			return G("Bounds", []interface{}{[]interface{}{x1, y1}, []interface{}{x2, y2}})
		}
	}
	out := make([]map[string]interface{}, n)
	for i := range out {
		g := gen(3)
		if g["t"] != "GeometryCollection" && rng.Intn(2) == 0 {
			g = G("GeometryCollection", []interface{}{gen(2), g, gen(3)})
		}
		out[i] = map[string]interface{}{"kind": "geom", "g": g}
	}
	return out
}

package main

import (
	"bufio"
	"bytes"
	"encoding/json"
	"fmt"
	"io"
	"os"
	"os/exec"
	"runtime/debug"
	"strconv"
	"strings"
	"syscall"
	"time"
)

func bytesReader(b []byte) io.Reader { return bytes.NewReader(b) }

// The sandbox runs each case in a child process so that a hang, a runaway
// allocation or a fatal runtime error in the code under test becomes an
// ordinary recorded outcome ("hang", "oom", "crash:...") instead of taking the
// driver down.  Parent and child talk over pipes, one JSON line per case.

const defaultDeadlineMS = 5000

func memLimitBytes() uint64 {
	if s := os.Getenv("VERIF_SANDBOX_MEM_MB"); s != "" {
		if n, err := strconv.ParseUint(s, 10, 64); err == nil {
			return n << 20
		}
	}
	return 3 << 30
}

func childMain(family string) {
	fam, ok := families[family]
	if !ok {
		die("unknown family %q", family)
	}
	lim := memLimitBytes()
	// address-space cap: an allocation sized from an untrusted count fails fast
	syscall.Setrlimit(syscall.RLIMIT_AS, &syscall.Rlimit{Cur: lim, Max: lim})
	debug.SetGCPercent(50)
	in := bufio.NewReaderSize(os.Stdin, 1<<20)
	out := bufio.NewWriterSize(os.Stdout, 1<<20)
	for {
		line, err := in.ReadBytes('\n')
		if len(line) > 1 {
			var m map[string]interface{}
			d := json.NewDecoder(bytes.NewReader(line))
			d.UseNumber()
			if e := d.Decode(&m); e != nil {
				die("child: bad case: %v", e)
			}
			evs := fam.Run(m)
			b, _ := json.Marshal(evs)
			out.Write(b)
			out.WriteByte('\n')
			out.Flush()
		}
		if err != nil {
			return
		}
	}
}

type sandbox struct {
	family string
	fam    *Family
	cmd    *exec.Cmd
	stdin  io.WriteCloser
	lines  chan []byte
	stderr *bytes.Buffer
	dead   chan struct{}
	bad    int // cases that hung or crashed (confirmed)
}

// after this many confirmed hangs or crashes the remaining cases are not run (each would cost three deadlines); they are
// marked "notrun" and the runner leaves them out of the validation - the run is a failing one already
const maxBadCases = 8

func newSandbox(family string, fam *Family) *sandbox {
	s := &sandbox{family: family, fam: fam}
	// the count is shared by the driver runs of one check (VERIF_BADFILE, set by the runner)
	if p := os.Getenv("VERIF_BADFILE"); p != "" {
		if b, err := os.ReadFile(p); err == nil {
			s.bad, _ = strconv.Atoi(strings.TrimSpace(string(b)))
		}
	}
	return s
}

func (s *sandbox) start() {
	s.cmd = exec.Command(os.Args[0], "__child", s.family)
	s.cmd.Env = os.Environ()
	var err error
	s.stdin, err = s.cmd.StdinPipe()
	if err != nil {
		die("sandbox: %v", err)
	}
	so, err := s.cmd.StdoutPipe()
	if err != nil {
		die("sandbox: %v", err)
	}
	s.stderr = &bytes.Buffer{}
	s.cmd.Stderr = s.stderr
	if err := s.cmd.Start(); err != nil {
		die("sandbox start: %v", err)
	}
	s.lines = make(chan []byte, 1)
	s.dead = make(chan struct{})
	go func(lines chan []byte, dead chan struct{}) {
		r := bufio.NewReaderSize(so, 1<<20)
		for {
			b, err := r.ReadBytes('\n')
			if len(b) > 0 && err == nil {
				lines <- b
			}
			if err != nil {
				close(dead)
				return
			}
		}
	}(s.lines, s.dead)
}

func (s *sandbox) kill() {
	if s.cmd != nil {
		s.cmd.Process.Kill()
		s.cmd.Wait()
		s.cmd = nil
	}
}

func (s *sandbox) close() {
	if s.cmd != nil {
		s.stdin.Close()
		done := make(chan struct{})
		go func() { s.cmd.Wait(); close(done) }()
		select {
		case <-done:
		case <-time.After(2 * time.Second):
			s.cmd.Process.Kill()
		}
		s.cmd = nil
	}
}

// once runs the case in the (possibly fresh) child; outcome "" means events are valid.
func (s *sandbox) once(c map[string]interface{}, deadline time.Duration) ([]Event, string) {
	if s.cmd == nil {
		s.start()
	}
	b, _ := json.Marshal(c)
	b = append(b, '\n')
	if _, err := s.stdin.Write(b); err != nil {
		s.kill()
		return nil, "crash:write " + err.Error()
	}
	select {
	case ln := <-s.lines:
		var evs []Event
		d := json.NewDecoder(bytes.NewReader(ln))
		d.UseNumber()
		if err := d.Decode(&evs); err != nil {
			die("sandbox: bad child reply: %v", err)
		}
		return evs, ""
	case <-s.dead:
		s.cmd.Wait()
		msg := s.stderr.String()
		s.cmd = nil
		if strings.Contains(msg, "out of memory") || strings.Contains(msg, "cannot allocate memory") {
			return nil, "oom"
		}
		first := msg
		if i := strings.Index(first, "\n"); i > 0 {
			first = first[:i]
		}
		if len(first) > 160 {
			first = first[:160]
		}
		return nil, "crash:" + first
	case <-time.After(deadline):
		s.kill()
		return nil, "hang"
	}
}

func (s *sandbox) run(c map[string]interface{}) []Event {
	if s.bad >= maxBadCases {
		return []Event{{"ev": "notrun", "out": "notrun"}}
	}
	dl := time.Duration(s.fam.DeadlineMS) * time.Millisecond
	if dl == 0 {
		dl = defaultDeadlineMS * time.Millisecond
	}
	evs, outc := s.once(c, dl)
	if outc == "" {
		// a case that reports that the real code stopped making progress counts like a hang (and its child, which still
		// holds the stuck goroutines, is replaced)
		for _, e := range evs {
			if h, ok := e["hang"].(bool); ok && h {
				// confirmed like any other hang: once more in a fresh child, alone, with every deadline doubled
				s.kill()
				os.Setenv("VERIF_DEADLINE_SCALE", "2")
				evs2, outc2 := s.once(c, 2*dl)
				os.Unsetenv("VERIF_DEADLINE_SCALE")
				s.kill()
				if outc2 != "" {
					s.countBad()
					return []Event{{"ev": "outcome", "out": outc2}}
				}
				for _, e2 := range evs2 {
					if h2, ok := e2["hang"].(bool); ok && h2 {
						s.countBad()
						return evs2
					}
				}
				fmt.Fprintf(os.Stderr, "sandbox: stalled run not reproduced, using second run\n")
				return evs2
			}
		}
		return evs
	}
	// confirm in a fresh child, alone, with twice the deadline: a loaded machine
	// must not be able to produce an alarm
	s.kill()
	evs2, outc2 := s.once(c, 2*dl)
	if outc2 == "" {
		fmt.Fprintf(os.Stderr, "sandbox: outcome %q not reproduced, using second run\n", outc)
		return evs2
	}
	s.countBad()
	return []Event{{"ev": "outcome", "out": outc2}}
}

func (s *sandbox) countBad() {
	s.bad++
	if p := os.Getenv("VERIF_BADFILE"); p != "" {
		os.WriteFile(p, []byte(strconv.Itoa(s.bad)), 0o644)
	}
}

package main

import (
	"fmt"
	"io/ioutil"
	"math"
	"math/rand"
	"os"
	"path/filepath"
	"reflect"
	"strconv"
	"strings"

	"github.com/ctessum/geom"
	gshp "github.com/ctessum/geom/encoding/shp"
	shp "github.com/jonas-p/go-shp"
)

// C16: shapefile write / read on real files in a fresh temporary directory.  A case is a behaviour of the queue
// model: create(kind, api), encode(r)*, close, open, decode*.
func init() {
	families["c16"] = &Family{Run: runC16, Random: randomC16, Sandbox: true, DeadlineMS: 20000}
}

// coordinate ids 1..6 -> adversarial finite float64 values (bit-identical round trip is required)
var c16Coords = []float64{0, math.Copysign(0, -1), 0.1, -1e300, 4.9e-324, 123456789.123456789}

// attribute pools (indices are shared with Shapefile.tla)
// (the last three begin or end with white space other than the blank, which is ordinary content of a string attribute)
var c16Names = []string{"", "a", "inner  spaces kept", strings.Repeat("x", 25) + strings.Repeat("Z", 25), "trailing tab\t", "\r\nleading line break", "10\u00a0km\u00a0"}
var c16Floats = []float64{0.5, 1.0 / 3.0, -123456.0625, 12345678901234567.0, 0.00000000005}

// integer attribute values beyond TLC's 32-bit integers travel as small markers: -2 is 9999999999 (the largest value of a
// ten-digit field), -3 is 2147483648 (one more than the largest 32-bit integer)
func c16ID(code int) int {
	switch code {
	case -2:
		return 9999999999
	case -3:
		return 2147483648
	}
	return code
}
func c16IDBack(v int) int {
	switch v {
	case 9999999999:
		return -2
	case 2147483648:
		return -3
	}
	return v
}

func c16CoordDec(v interface{}) float64 { return c16Coords[num(v)-1] }
func c16CoordEnc(f float64) interface{} {
	for i, c := range c16Coords {
		if math.Float64bits(c) == math.Float64bits(f) {
			return i + 1
		}
	}
	return -1
}

type recPoint struct {
	geom.Point
	ID   int
	Name string
	Val  float64 `shp:"value"`
}
type recMultiPoint struct {
	geom.MultiPoint
	ID   int
	Name string
	Val  float64 `shp:"value"`
}
type recLineString struct {
	geom.LineString
	ID   int
	Name string
	Val  float64 `shp:"value"`
}
type recMultiLineString struct {
	geom.MultiLineString
	ID   int
	Name string
	Val  float64 `shp:"value"`
}
type recPolygon struct {
	geom.Polygon
	ID   int
	Name string
	Val  float64 `shp:"value"`
}
type recBounds struct {
	*geom.Bounds
	ID   int
	Name string
	Val  float64 `shp:"value"`
}

// the decoding struct: geometry through the interface, attribute fields matched by tag / name in another case
// read-side struct for files written through EncodeFields (columns id, NAME, Value): every tag names a column the file
// does not have, every field name is a column name in another case
type recFallback struct {
	Geom  geom.Geom
	Id    int     `shp:"ident"`
	Name  string  `shp:"label"`
	VALUE float64 `shp:"val"`
}

type recAny struct {
	Geom geom.Geom
	Id   int `shp:"ID"`
	NAME string
	V    float64 `shp:"VALUE"`
}

// second column layout: a 10-byte and an 11-byte column name (the DBF limit), the string column last
type recPointB struct {
	geom.Point
	Identifier  int
	Measurement float64 `shp:"Measurement"`
	Name        string
}
type recMultiPointB struct {
	geom.MultiPoint
	Identifier  int
	Measurement float64 `shp:"Measurement"`
	Name        string
}
type recLineStringB struct {
	geom.LineString
	Identifier  int
	Measurement float64 `shp:"Measurement"`
	Name        string
}
type recMultiLineStringB struct {
	geom.MultiLineString
	Identifier  int
	Measurement float64 `shp:"Measurement"`
	Name        string
}
type recPolygonB struct {
	geom.Polygon
	Identifier  int
	Measurement float64 `shp:"Measurement"`
	Name        string
}
type recBoundsB struct {
	*geom.Bounds
	Identifier  int
	Measurement float64 `shp:"Measurement"`
	Name        string
}
type recAnyB struct {
	Geom        geom.Geom
	IDENTIFIER  int
	Measurement float64 `shp:"MEASUREMENT"`
	NAME        string
}

func c16ArchetypeB(kind string) interface{} {
	switch kind {
	case "Point":
		return recPointB{}
	case "MultiPoint":
		return recMultiPointB{}
	case "LineString":
		return recLineStringB{}
	case "MultiLineString":
		return recMultiLineStringB{}
	case "Polygon":
		return recPolygonB{}
	}
	return recBoundsB{}
}

func c16RecordB(kind string, g geom.Geom, id int, name string, val float64) interface{} {
	switch kind {
	case "Point":
		return recPointB{g.(geom.Point), id, val, name}
	case "MultiPoint":
		return recMultiPointB{g.(geom.MultiPoint), id, val, name}
	case "LineString":
		return recLineStringB{g.(geom.LineString), id, val, name}
	case "MultiLineString":
		return recMultiLineStringB{g.(geom.MultiLineString), id, val, name}
	case "Polygon":
		return recPolygonB{g.(geom.Polygon), id, val, name}
	}
	return recBoundsB{g.(*geom.Bounds), id, val, name}
}

// third column layout, built with reflect.StructOf: the Go name of one field equals (apart from case) the shp tag of another
// field - a column is matched by tag first, by field name only when there is no tag match
func c16TypeC(kind string) reflect.Type {
	var gt reflect.Type
	switch kind {
	case "Point":
		gt = reflect.TypeOf(geom.Point{})
	case "MultiPoint":
		gt = reflect.TypeOf(geom.MultiPoint{})
	case "LineString":
		gt = reflect.TypeOf(geom.LineString{})
	case "MultiLineString":
		gt = reflect.TypeOf(geom.MultiLineString{})
	case "Polygon":
		gt = reflect.TypeOf(geom.Polygon{})
	default:
		gt = reflect.TypeOf(&geom.Bounds{})
	}
	return reflect.StructOf([]reflect.StructField{
		{Name: "Geom", Type: gt},
		{Name: "Region", Type: reflect.TypeOf(int(0)), Tag: `shp:"area"`},
		{Name: "Area", Type: reflect.TypeOf(float64(0)), Tag: `shp:"area_km2"`},
		{Name: "Name", Type: reflect.TypeOf("")},
	})
}

// the decoding twin: the geometry is received through the interface
func c16TypeCDec() reflect.Type {
	return reflect.StructOf([]reflect.StructField{
		{Name: "Geom", Type: reflect.TypeOf((*geom.Geom)(nil)).Elem()},
		{Name: "Region", Type: reflect.TypeOf(int(0)), Tag: `shp:"area"`},
		{Name: "Area", Type: reflect.TypeOf(float64(0)), Tag: `shp:"area_km2"`},
		{Name: "Name", Type: reflect.TypeOf("")},
	})
}

func c16RecordC(kind string, g geom.Geom, id int, name string, val float64) interface{} {
	v := reflect.New(c16TypeC(kind)).Elem()
	v.Field(0).Set(reflect.ValueOf(g))
	v.Field(1).SetInt(int64(id))
	v.Field(2).SetFloat(val)
	v.Field(3).SetString(name)
	return v.Interface()
}

func c16Archetype(kind string) interface{} {
	switch kind {
	case "Point":
		return recPoint{}
	case "MultiPoint":
		return recMultiPoint{}
	case "LineString":
		return recLineString{}
	case "MultiLineString":
		return recMultiLineString{}
	case "Polygon":
		return recPolygon{}
	}
	return recBounds{}
}

func c16Record(kind string, g geom.Geom, id int, name string, val float64) interface{} {
	switch kind {
	case "Point":
		return recPoint{g.(geom.Point), id, name, val}
	case "MultiPoint":
		return recMultiPoint{g.(geom.MultiPoint), id, name, val}
	case "LineString":
		return recLineString{g.(geom.LineString), id, name, val}
	case "MultiLineString":
		return recMultiLineString{g.(geom.MultiLineString), id, name, val}
	case "Polygon":
		return recPolygon{g.(geom.Polygon), id, name, val}
	}
	return recBounds{g.(*geom.Bounds), id, name, val}
}

func c16ShapeType(kind string) shp.ShapeType {
	switch kind {
	case "Point":
		return shp.POINT
	case "MultiPoint":
		return shp.MULTIPOINT
	case "LineString", "MultiLineString":
		return shp.POLYLINE
	}
	return shp.POLYGON
}

func nameIndex(s string) int {
	for i, n := range c16Names {
		if n == s {
			return i + 1
		}
	}
	return -1
}

func floatObs(e Event, got float64) {
	e["val"], e["valdiff"] = -1, 1<<30
	for i, f := range c16Floats {
		if got == f {
			e["val"] = i + 1
		}
	}
	e["got"] = strconv.FormatFloat(got, 'g', -1, 64)
}

func runC16(c map[string]interface{}) []Event {
	dir, err := ioutil.TempDir("", "verifshp")
	if err != nil {
		return []Event{{"ev": "create", "out": "tempdir: " + err.Error()}}
	}
	defer os.RemoveAll(dir)
	fn := filepath.Join(dir, "t.shp")
	var evs []Event
	var enc *gshp.Encoder
	var dec *gshp.Decoder
	kind, api := "", ""
	var written []float64 // the float written for each row (to measure the difference on read)
	row := 0
	// attribute maps handed out by DecodeRowFields are kept together with a copy of what they held; every later decode event
	// looks at them again: a row that was returned stays what it was, whatever is read afterwards
	var keptMaps, keptCopies []map[string]string
	keep := func(m map[string]string) {
		if m == nil {
			return
		}
		cp := make(map[string]string, len(m))
		for k, v := range m {
			cp[k] = v
		}
		keptMaps, keptCopies = append(keptMaps, m), append(keptCopies, cp)
	}
	keptChanged := func() bool {
		for i, m := range keptMaps {
			if len(m) != len(keptCopies[i]) {
				return true
			}
			for k, v := range keptCopies[i] {
				if w, ok := m[k]; !ok || w != v {
					return true
				}
			}
		}
		return false
	}
	for _, opv := range arr(c["ops"]) {
		op := opv.(map[string]interface{})
		switch str(op["op"]) {
		case "create":
			kind, api = str(op["kind"]), str(op["api"])
			e := Event{"ev": "create", "kind": kind, "api": api}
			e["out"] = safely(func() {
				var err error
				if api == "struct" {
					enc, err = gshp.NewEncoder(fn, c16Archetype(kind))
				} else if api == "struct3" {
					enc, err = gshp.NewEncoder(fn, reflect.New(c16TypeC(kind)).Elem().Interface())
				} else if api == "struct2" {
					enc, err = gshp.NewEncoder(fn, c16ArchetypeB(kind))
				} else if api == "fields2" {
					enc, err = gshp.NewEncoderFromFields(fn, c16ShapeType(kind), shp.NumberField("identifier", 10),
						shp.FloatField("measurement", 30, 10), shp.StringField("name", 50))
				} else {
					enc, err = gshp.NewEncoderFromFields(fn, c16ShapeType(kind), shp.NumberField("id", 10),
						shp.StringField("name", 50), shp.FloatField("value", 30, 10))
				}
				if err != nil {
					e["out2"] = err.Error()
				}
			})
			if _, bad := e["out2"]; bad {
				e["out"] = "err:" + fmt.Sprint(e["out2"])
			}
			evs = append(evs, e)
		case "encode":
			r := op["r"].(map[string]interface{})
			e := Event{"ev": "encode", "r": r}
			gm := r["g"].(map[string]interface{})
			var g geom.Geom
			if str(gm["t"]) != "nil" {
				g = decGeom(gm, c16CoordDec)
			}
			id, name, val := c16ID(num(r["id"])), c16Names[num(r["name"])-1], c16Floats[num(r["val"])-1]
			written = append(written, val)
			e["out"] = safely(func() {
				var err error
				if api == "struct" {
					err = enc.Encode(c16Record(kind, g, id, name, val))
				} else if api == "struct3" {
					err = enc.Encode(c16RecordC(kind, g, id, name, val))
				} else if api == "struct2" {
					err = enc.Encode(c16RecordB(kind, g, id, name, val))
				} else if api == "fields2" {
					err = enc.EncodeFields(g, id, val, name)
				} else {
					err = enc.EncodeFields(g, id, name, val)
				}
				if err != nil {
					e["out2"] = err.Error()
				}
			})
			if _, bad := e["out2"]; bad {
				e["out"] = "err:" + fmt.Sprint(e["out2"])
			}
			evs = append(evs, e)
		case "close":
			e := Event{"ev": "close"}
			e["out"] = safely(func() { enc.Close() })
			evs = append(evs, e)
		case "open":
			e := Event{"ev": "open"}
			e["out"] = safely(func() {
				var err error
				dec, err = gshp.NewDecoder(fn)
				if err != nil {
					e["out2"] = err.Error()
				}
			})
			if _, bad := e["out2"]; bad {
				e["out"] = "err:" + fmt.Sprint(e["out2"])
			}
			evs = append(evs, e)
		case "decodeg": // the row is read for its geometry alone
			e := Event{"ev": "decodeg", "more": false, "err": ""}
			e["g"] = map[string]interface{}{"t": "nil", "m": []interface{}{}}
			e["out"] = safely(func() {
				g, _, more := dec.DecodeRowFields()
				e["more"] = more
				if more {
					if g != nil {
						e["g"] = encGeom(g, c16CoordEnc)
					}
					row++
				}
				if err := dec.Error(); err != nil {
					e["err"] = err.Error()
				}
			})
			evs = append(evs, e)
		case "decode":
			e := Event{"ev": "decode", "more": false, "g": noGeom, "id": 0, "name": -1, "val": -1, "valdiff": 1 << 30, "err": ""}
			noG := map[string]interface{}{"t": "nil", "m": []interface{}{}}
			e["g"] = noG
			e["out"] = safely(func() {
				var got float64
				if api == "struct3" {
					rp := reflect.New(c16TypeCDec())
					more := dec.DecodeRow(rp.Interface())
					e["more"] = more
					if more {
						rv := rp.Elem()
						if !rv.Field(0).IsNil() {
							e["g"] = encGeom(rv.Field(0).Interface().(geom.Geom), c16CoordEnc)
						}
						e["id"], e["name"] = c16IDBack(int(rv.Field(1).Int())), nameIndex(rv.Field(3).String())
						got = rv.Field(2).Float()
					}
				} else if api == "struct2" {
					var rec recAnyB
					more := dec.DecodeRow(&rec)
					e["more"] = more
					if more {
						if rec.Geom != nil {
							e["g"] = encGeom(rec.Geom, c16CoordEnc)
						}
						e["id"], e["name"] = c16IDBack(rec.IDENTIFIER), nameIndex(rec.NAME)
						got = rec.Measurement
					}
				} else if api == "fields2" {
					g, fields, more := dec.DecodeRowFields("Identifier", "MEASUREMENT", "name")
					e["more"] = more
					if keptChanged() {
						e["err"] = "the attributes of a row returned earlier were changed by this call"
					}
					if more {
						keep(fields)
					}
					if more {
						if g != nil {
							e["g"] = encGeom(g, c16CoordEnc)
						}
						id, err := strconv.ParseInt(strings.TrimSpace(fields["Identifier"]), 10, 64)
						if err != nil {
							id = -424242
						}
						e["id"] = c16IDBack(int(id))
						e["name"] = nameIndex(strings.TrimRight(fields["name"], " "))
						got, err = strconv.ParseFloat(strings.TrimSpace(fields["MEASUREMENT"]), 64)
						if err != nil {
							got = math.NaN()
						}
					}
				} else if api == "struct" {
					var rec recAny
					more := dec.DecodeRow(&rec)
					e["more"] = more
					if more {
						if rec.Geom != nil {
							e["g"] = encGeom(rec.Geom, c16CoordEnc)
						}
						e["id"], e["name"] = c16IDBack(rec.Id), nameIndex(rec.NAME)
						got = rec.V
					}
				} else if (len(written)+int(seed()))%2 == 1 {
					// a file written through EncodeFields, read with DecodeRow into a struct whose tags name no column of the
					// file while its field names do (in another case): fields are matched by tag or by name
					var rec recFallback
					more := dec.DecodeRow(&rec)
					e["more"] = more
					if more {
						if rec.Geom != nil {
							e["g"] = encGeom(rec.Geom, c16CoordEnc)
						}
						e["id"], e["name"] = c16IDBack(rec.Id), nameIndex(rec.Name)
						got = rec.VALUE
					}
				} else {
					g, fields, more := dec.DecodeRowFields("id", "NAME", "Value")
					e["more"] = more
					if keptChanged() {
						e["err"] = "the attributes of a row returned earlier were changed by this call"
					}
					if more {
						keep(fields)
					}
					if more {
						if g != nil {
							e["g"] = encGeom(g, c16CoordEnc)
						}
						id, err := strconv.ParseInt(strings.TrimSpace(fields["id"]), 10, 64)
						if err != nil {
							id = -424242
						}
						e["id"] = c16IDBack(int(id))
						e["name"] = nameIndex(strings.TrimRight(fields["NAME"], " "))
						got, err = strconv.ParseFloat(strings.TrimSpace(fields["Value"]), 64)
						if err != nil {
							got = math.NaN()
						}
					}
				}
				if e["more"].(bool) {
					floatObs(e, got)
					if row < len(written) {
						d := math.Round((got - written[row]) * 1e12)
						if math.Abs(d) < 1e9 {
							e["valdiff"] = int(d)
						}
					}
					row++
				}
				if err := dec.Error(); err != nil {
					e["err"] = err.Error()
				}
			})
			evs = append(evs, e)
		}
	}
	if dec != nil {
		safely(func() { dec.Close() })
	}
	return evs
}

// random: many-record files of one kind
func randomC16(rng *rand.Rand, n int) []map[string]interface{} {
	kinds := []string{"Point", "MultiPoint", "LineString", "MultiLineString", "Polygon", "Bounds"}
	pt := func() interface{} { return []interface{}{1 + rng.Intn(6), 1 + rng.Intn(6)} }
	path := func(k int) []interface{} {
		o := make([]interface{}, k)
		for i := range o {
			o[i] = pt()
		}
		return o
	}
	G := func(t string, m interface{}) map[string]interface{} { return map[string]interface{}{"t": t, "m": m} }
	out := make([]map[string]interface{}, n)
	for i := range out {
		kind := kinds[rng.Intn(len(kinds))]
		api := []string{"struct", "fields", "struct2", "fields2", "struct3"}[rng.Intn(5)]
		ops := []interface{}{map[string]interface{}{"op": "create", "kind": kind, "api": api}}
		nrec := 1 + rng.Intn(60)
		for r := 0; r < nrec; r++ {
			var g map[string]interface{}
			switch kind {
			case "Point":
				g = G("Point", pt())
			case "MultiPoint":
				g = G("MultiPoint", path(1+rng.Intn(6)))
			case "LineString":
				g = G("LineString", path(2+rng.Intn(6)))
			case "MultiLineString":
				m := make([]interface{}, 1+rng.Intn(4))
				for j := range m {
					m[j] = path(1 + rng.Intn(5))
				}
				g = G("MultiLineString", m)
			case "Polygon":
				m := make([]interface{}, 1+rng.Intn(4))
				for j := range m {
					p := path(3 + rng.Intn(4))
					if rng.Intn(2) == 0 {
						p = append(p, p[0])
					}
					m[j] = p
				}
				g = G("Polygon", m)
			default:
				// proper boxes only (min < max on both axes); ids ordered by value: 4 (-1e300) < 2 (-0) = 1 (0) < 5 < 3 (0.1) < 6
				lo := []int{4, 2, 1, 5}
				hi := []int{3, 6}
				g = G("Bounds", []interface{}{[]interface{}{lo[rng.Intn(4)], lo[rng.Intn(4)]}, []interface{}{hi[rng.Intn(2)], hi[rng.Intn(2)]}})
			}
			ids := []int{0, -1, 2147483647, -999999999, r}
			ops = append(ops, map[string]interface{}{"op": "encode", "r": map[string]interface{}{"g": g, "id": ids[rng.Intn(len(ids))],
				"name": 1 + rng.Intn(len(c16Names)), "val": 1 + rng.Intn(len(c16Floats))}})
		}
		ops = append(ops, map[string]interface{}{"op": "close"}, map[string]interface{}{"op": "open"})
		gonly := rng.Intn(3) == 0 // some files have a quarter of their rows read for the geometry alone
		for r := 0; r <= nrec; r++ {
			if gonly && r < nrec && rng.Intn(4) == 0 {
				ops = append(ops, map[string]interface{}{"op": "decodeg"})
				continue
			}
			ops = append(ops, map[string]interface{}{"op": "decode"})
		}
		out[i] = map[string]interface{}{"kind": "shp", "ops": ops}
	}
	return out
}

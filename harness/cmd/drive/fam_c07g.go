package main

import (
	"encoding/json"
	"math"
	"math/rand"
	"reflect"
	"runtime"

	"github.com/ctessum/geom"
	"github.com/ctessum/geom/encoding/geojson"
)

// C07 (GeoJSON half): geojson.Decode on arbitrarily shaped documents and FromGeoJSON on Go values.
//   {"kind":"gj","ty":type string,"co":value tree}      rendered to JSON text and decoded
//   {"kind":"gjvalue","ty":..,"variant":..}               FromGeoJSON with typed Go values / nil
//   {"kind":"gjtext","text":..}                           raw text (mutational)
func init() {
	families["c07g"] = &Family{Run: runC07G, Random: randomC07G, Sandbox: true, DeadlineMS: 8000}
}

func treeToValue(v interface{}) interface{} {
	m := v.(map[string]interface{})
	switch str(m["k"]) {
	case "arr":
		a := arr(m["v"])
		out := make([]interface{}, len(a))
		for i, x := range a {
			out[i] = treeToValue(x)
		}
		return out
	case "num":
		return float64(num(m["n"]))
	case "str":
		return "s"
	case "null":
		return nil
	case "bool":
		return true
	}
	return map[string]interface{}{"a": 1.0}
}

func gjObserve(e Event, inputLen int, dec func() (geom.Geom, error)) {
	var m0, m1 runtime.MemStats
	var g geom.Geom
	var err error
	runtime.GC()
	runtime.ReadMemStats(&m0)
	out := safely(func() { g, err = dec() })
	runtime.ReadMemStats(&m1)
	alloc := m1.TotalAlloc - m0.TotalAlloc
	if alloc > math.MaxInt32 {
		alloc = math.MaxInt32
	}
	e["alloc"], e["len"] = int(alloc), inputLen
	e["g"], e["g2"], e["reenc"] = noGeom, noGeom, "none"
	switch {
	case out != "ok":
		e["out"] = out
	case err != nil:
		e["out"] = "err"
	case g == nil || (reflect.ValueOf(g).Kind() == reflect.Ptr && reflect.ValueOf(g).IsNil()):
		e["out"] = "nilgeom"
	default:
		e["out"] = "ok"
		e["g"] = encGeom(g, numEnc)
		e["reenc"] = safely(func() {
			b, err := geojson.Encode(g)
			if err != nil {
				e["reenc"] = "err:" + err.Error()
				return
			}
			g2, err := geojson.Decode(b)
			if err != nil {
				e["reenc"] = "err2:" + err.Error()
				return
			}
			e["g2"] = encGeom(g2, numEnc)
		})
	}
}

func runC07G(c map[string]interface{}) []Event {
	e := Event{"ev": "gjdec"}
	switch str(c["kind"]) {
	case "gj":
		doc := map[string]interface{}{"type": str(c["ty"]), "coordinates": treeToValue(c["co"])}
		b, _ := json.Marshal(doc)
		gjObserve(e, len(b), func() (geom.Geom, error) { return geojson.Decode(b) })
	case "gjtext":
		b := []byte(str(c["text"]))
		gjObserve(e, len(b), func() (geom.Geom, error) { return geojson.Decode(b) })
	case "gjvalue":
		var gv *geojson.Geometry
		switch str(c["variant"]) {
		case "nil":
			gv = nil
		case "f64":
			gv = &geojson.Geometry{Type: str(c["ty"]), Coordinates: []float64{1, 2}}
		case "f64s":
			gv = &geojson.Geometry{Type: str(c["ty"]), Coordinates: [][]float64{{1, 2}, {2, 1}}}
		case "f64ss":
			gv = &geojson.Geometry{Type: str(c["ty"]), Coordinates: [][][]float64{{{1, 2}, {2, 1}}}}
		case "nilcoords":
			gv = &geojson.Geometry{Type: str(c["ty"])}
		case "ints":
			gv = &geojson.Geometry{Type: str(c["ty"]), Coordinates: []interface{}{1, 2}}
		case "string":
			gv = &geojson.Geometry{Type: str(c["ty"]), Coordinates: "1,2"}
		case "map":
			gv = &geojson.Geometry{Type: str(c["ty"]), Coordinates: map[string]interface{}{"x": 1.0}}
		}
		gjObserve(e, 16, func() (geom.Geom, error) { return geojson.FromGeoJSON(gv) })
	}
	return []Event{e}
}

func randomC07G(rng *rand.Rand, n int) []map[string]interface{} {
	types := []string{"Point", "MultiPoint", "LineString", "MultiLineString", "Polygon", "MultiPolygon", "GeometryCollection", "Feature", ""}
	variants := []string{"nil", "f64", "f64s", "f64ss", "nilcoords", "ints", "string", "map"}
	var out []map[string]interface{}
	for _, t := range types {
		for _, v := range variants {
			out = append(out, map[string]interface{}{"kind": "gjvalue", "ty": t, "variant": v})
		}
	}
	// textual mutations of valid documents: truncation, character substitution, huge numbers, duplicated / missing members
	valid := []string{
		`{"type":"Point","coordinates":[1,2]}`,
		`{"type":"LineString","coordinates":[[1,2],[2,1]]}`,
		`{"type":"Polygon","coordinates":[[[1,2],[2,1],[1,1],[1,2]],[]]}`,
		`{"type":"MultiPolygon","coordinates":[[[[1,2],[2,1],[1,1],[1,2]]],[[[2,2]]]]}`,
		`{"type":"MultiLineString","coordinates":[[[1,2]],[[2,1],[1,1]]]}`,
		`{"coordinates":[[1,2]],"type":"MultiPoint","extra":{"a":[1,{"b":null}]}}`,
	}
	subs := []string{"[", "]", "{", "}", ",", "null", "1e999", "-0", "\"x\"", "true", "[[[[[[[[[[", "1.5", ":", "\"type\":\"Point\","}
	for len(out) < n {
		s := valid[rng.Intn(len(valid))]
		switch rng.Intn(4) {
		case 0:
			s = s[:rng.Intn(len(s)+1)]
		case 1:
			p := rng.Intn(len(s))
			s = s[:p] + subs[rng.Intn(len(subs))] + s[p+1:]
		case 2:
			p := rng.Intn(len(s))
			s = s[:p] + subs[rng.Intn(len(subs))] + s[p:]
		case 3: // deep nesting up to 64 KiB
			d := 1 + rng.Intn(30000)
			b := make([]byte, 0, 2*d+40)
			b = append(b, `{"type":"MultiPolygon","coordinates":`...)
			for i := 0; i < d; i++ {
				b = append(b, '[')
			}
			for i := 0; i < d; i++ {
				b = append(b, ']')
			}
			b = append(b, '}')
			s = string(b)
		}
		out = append(out, map[string]interface{}{"kind": "gjtext", "text": s})
	}
	return out[:n]
}

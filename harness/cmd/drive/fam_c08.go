package main

import (
	"fmt"
	"math"
	"math/rand"
	"strconv"
	"strings"

	"github.com/ctessum/geom/proj"
)

// C08: WGS84 long/lat -> P -> WGS84 -> P for one configuration, instantiated with seeded concrete parameters
// inside the projection's documented validity, at sample positions of its usable region.
func init() {
	families["c08"] = &Family{Run: runC08, Random: randomC08, Sandbox: true, DeadlineMS: 20000}
}

var c08Ellps = []string{"MERIT", "SGS85", "GRS80", "IAU76", "airy", "APL4", "NWL9D", "mod_airy", "andrae", "aust_SA", "GRS67", "bessel",
	"bess_nam", "clrk66", "clrk80", "clrk58", "CPM", "delmbr", "engelis", "evrst30", "evrst48", "evrst56", "evrst69", "evrstSS", "fschr60",
	"fschr60m", "fschr68", "helmert", "hough", "intl", "kaula", "lerch", "mprts", "new_intl", "plessis", "krass", "SEasia", "walbeck",
	"WGS60", "WGS66", "WGS7", "WGS84"}
var c08Datum3 = []string{"ggrs87", "potsdam", "carthage", "hermannskogel", "nzgd49", "s_jtsk", "beduaram", "gunung_segara"}
var c08Datum7 = []string{"ch1903", "ire65", "rassadiran", "osgb36", "rnb72"}

// a datum shift is exercised in the region its datum is defined for (elsewhere the ellipsoids are hundreds of metres
// apart vertically, and a 2-D transformation cannot carry that height through the round trip)
var c08Home = map[string][2]float64{"ggrs87": {23, 38}, "potsdam": {10, 51}, "carthage": {9, 35}, "hermannskogel": {14, 47.5}, "nzgd49": {173, -41},
	"s_jtsk": {15.5, 49.8}, "beduaram": {10, 15}, "gunung_segara": {115.5, -1.2}, "ch1903": {8, 46.8}, "ire65": {-8, 53.3}, "rassadiran": {52.5, 27.5},
	"osgb36": {-2, 54}, "rnb72": {4.5, 50.6}}
var c08PMDeg = map[string]float64{"lisbon": -9.131906111111, "paris": 2.337229166667, "bogota": -74.080916666667, "madrid": -3.687938888889,
	"rome": 12.452333333333, "bern": 7.439583333333, "jakarta": 106.807719444444, "ferro": -17.666666666667, "brussels": 4.367975,
	"stockholm": 18.058277777778, "athens": 23.7163375, "oslo": 10.722916666667}
var c08PM = []string{"lisbon", "paris", "bogota", "madrid", "rome", "bern", "jakarta", "ferro", "brussels", "stockholm", "athens", "oslo"}

func c08Build(cfg map[string]interface{}, rng *rand.Rand) (p4 string, grid [][2]float64) {
	pn := str(cfg["proj"])
	r := func(lo, hi float64) float64 { return math.Round((lo+rng.Float64()*(hi-lo))*1e4) / 1e4 }
	F := func(v float64) string { return strconv.FormatFloat(v, 'f', -1, 64) }
	lon0 := r(-150, 150)
	pmOff := 0.0
	pmName := ""
	if str(cfg["pm"]) == "other" && pn != "krovak" && pn != "utm" {
		pmName = c08PM[rng.Intn(len(c08PM))]
		pmOff = c08PMDeg[pmName]
	}
	datumName, home := "", [2]float64{}
	hasHome := false
	if pn != "krovak" && cfg["sphere"] != true {
		switch str(cfg["datum"]) {
		case "p3":
			datumName = c08Datum3[rng.Intn(len(c08Datum3))]
		case "p7":
			datumName = c08Datum7[rng.Intn(len(c08Datum7))]
		}
		if datumName != "" {
			home, hasHome = c08Home[datumName], true
			lon0 = math.Round((home[0]-pmOff)*1e4) / 1e4 // +lon_0 counts from the prime meridian
		}
	}
	s := "+proj=" + pn
	var lats []float64
	switch pn {
	case "longlat":
		lats = []float64{-80, -10, 35, 75}
	case "merc":
		if rng.Intn(3) == 0 { // the scale given through the latitude of true scale
			s += " +lon_0=" + F(lon0) + " +lat_ts=" + F(r(5, 60)) + " +x_0=" + F(r(-1e6, 1e6)) + " +y_0=" + F(r(-1e6, 1e6))
		} else {
			s += " +lon_0=" + F(lon0) + " +k=" + F(r(0.9, 1.0)) + " +x_0=" + F(r(-1e6, 1e6)) + " +y_0=" + F(r(-1e6, 1e6))
		}
		lats = []float64{-84.9, -40, 0.5, 60, 84.9}
	case "lcc", "aea", "eqdc":
		lat1 := r(15, 45)
		lat2 := lat1 + r(5, 25)
		if rng.Intn(2) == 0 { // southern hemisphere cone
			lat1, lat2 = -lat1, -lat2
		}
		if rng.Intn(4) == 0 { // a single standard parallel
			lat2 = lat1
		}
		if !hasHome && rng.Intn(2) == 0 { // a central meridian next to the antimeridian: part of the positions lie across it
			lon0 = math.Copysign(r(150, 178), float64(rng.Intn(2))-0.5)
		}
		if hasHome { // parallels around the datum's home latitude (never symmetric about the equator)
			lat1, lat2 = math.Round(home[1])-4, math.Round(home[1])+5
			if lat1 == -lat2 {
				lat2++
			}
		}
		// the latitude of origin: between the parallels, on the equator (the PROJ.4 default, written out), or south of the first
		lat0 := math.Round((lat1+lat2)/2*1e4) / 1e4
		switch rng.Intn(3) {
		case 1:
			lat0 = 0
		case 2:
			lat0 = math.Round((lat1-math.Copysign(7.5, lat1))*1e4) / 1e4
		}
		s += " +lat_1=" + F(lat1) + " +lat_2=" + F(lat2) + " +lat_0=" + F(lat0) + " +lon_0=" + F(lon0) + " +x_0=" + F(r(0, 2e6)) + " +y_0=" + F(r(0, 2e6))
		if pn == "lcc" && rng.Intn(2) == 0 { // a scale factor on the conformal conic (the French Lambert zones have one)
			s += " +k_0=" + F(r(0.9990, 1.0005))
		}
		lats = []float64{lat1 - math.Copysign(8, lat1), lat1, (lat1 + lat2) / 2, lat2 + math.Copysign(10, lat2)}
	case "tmerc":
		if !hasHome && rng.Intn(3) == 0 { // a central meridian next to the antimeridian
			lon0 = []float64{178.5, -179.25, 180}[rng.Intn(3)]
		}
		s += " +lat_0=" + F(r(-30, 30)) + " +lon_0=" + F(lon0) + " +k=" + F(r(0.9992, 1.0)) + " +x_0=" + F(r(0, 1e6)) + " +y_0=" + F(r(0, 1e6))
		lats = []float64{-70, -20, -1.1, 0.25, 0.6, 0.9, 1.3, 1.6, 45, 80} // dense near the equator: the footpoint iteration is slowest there
	case "utm":
		zone := 1 + rng.Intn(60)
		if rng.Intn(2) == 0 { // the two zones next to the antimeridian: half of their positions lie across it
			zone = []int{1, 60}[rng.Intn(2)]
		}
		if hasHome {
			zone = int(math.Floor((home[0]+180)/6)) + 1
		}
		lon0 = float64(6*zone - 183)
		s += fmt.Sprintf(" +zone=%d", zone)
		if b, _ := cfg["south"].(bool); b || (hasHome && home[1] < 0) {
			s += " +south"
			lats = []float64{-79, -45, -10, -1.6, -1.2, -0.8, -0.5}
		} else {
			lats = []float64{0.5, 0.7, 1.0, 1.4, 1.7, 10, 45, 83}
		}
	case "krovak":
		lon0 = 24.833333 // the projection's own origin (Ferro-referenced constants are built in)
		lats = []float64{48, 49.5, 51}
	}
	// ellipsoid and datum
	switch {
	case pn == "krovak":
		s += " +ellps=bessel"
		if str(cfg["datum"]) == "p3" {
			s += " +towgs84=570.8,85.7,462.8"
		}
	case cfg["sphere"] == true:
		s += " +a=6370997 +b=6370997"
	default:
		switch str(cfg["datum"]) {
		case "none":
			s += " +ellps=" + c08Ellps[rng.Intn(len(c08Ellps))]
			if rng.Intn(5) == 0 { // the sphere of the ellipsoid's surface area in place of the ellipsoid
				s += " +R_A"
			}
		case "wgs84":
			if rng.Intn(2) == 0 {
				s += " +datum=WGS84"
			} else {
				s += " +datum=nad83"
			}
		case "p3", "p7":
			s += " +datum=" + datumName
		}
	}
	if pn != "longlat" && pn != "krovak" {
		s += " +units=" + str(cfg["unit"])
	}
	if pmName != "" {
		s += " +pm=" + pmName // +lon_0 counts from the prime meridian: the central meridian lies at lon_0 + pm east of Greenwich
	}
	s += " +no_defs"
	// parameters left to their defaults: the false origin, the latitude of origin or the central meridian is not given
	// (PROJ.4: zero).  The round trip is taken with whatever the definition then means.
	if pn == "merc" || pn == "lcc" || pn == "aea" || pn == "eqdc" || pn == "tmerc" {
		drop := func(keys ...string) {
			for _, k := range keys {
				if i := strings.Index(s, " +"+k+"="); i >= 0 {
					j := strings.Index(s[i+1:], " ")
					s = s[:i] + s[i+1+j:]
				}
			}
		}
		switch rng.Intn(5) {
		case 1:
			drop("x_0", "y_0")
		case 2:
			drop("lat_0")
		case 3:
			if !hasHome {
				drop("lon_0")
				lon0 = 0
			}
		}
	}
	dls := []float64{-3.4, -1.2, 0.3, 3.4}
	if pn == "lcc" || pn == "aea" || pn == "eqdc" || pn == "merc" || pn == "longlat" {
		dls = []float64{-60, -7.5, 0.3, 33, 120}
	}
	if pn == "krovak" {
		dls = []float64{-9, -7, -3}
		lon0 = 24.833333
	}
	if hasHome {
		dls = []float64{-1.5, -0.4, 0.9}
		lats = []float64{home[1] - 1, home[1] + 0.3, home[1] + 1.2}
		if pn == "utm" && home[1] > 0 && home[1] < 1.3 {
			lats = []float64{home[1], home[1] + 0.3, home[1] + 1.2}
		}
		lon0, pmOff = home[0], 0 // positions are given east of Greenwich, around the datum's home
	}
	for _, dl := range dls {
		for _, lat := range lats {
			lon := lon0 + pmOff + dl
			for lon > 180 {
				lon -= 360
			}
			for lon < -180 {
				lon += 360
			}
			grid = append(grid, [2]float64{lon, lat})
		}
	}
	return s, grid
}

func runC08(c map[string]interface{}) []Event {
	cfg := c["cfg"].(map[string]interface{})
	sd := seed()*104729 + int64(num(c["vseed"]))
	p4, grid := c08Build(cfg, rand.New(rand.NewSource(sd)))
	e := Event{"ev": "rt", "p4": p4, "err": "", "maxdeg9": -1, "maxxyum": -1, "n": 0}
	e["out"] = safely(func() {
		w, err := proj.Parse("+proj=longlat +ellps=WGS84 +datum=WGS84 +units=degrees")
		if err != nil {
			e["err"] = "wgs84: " + err.Error()
			return
		}
		p, err := proj.Parse(p4)
		if err != nil {
			e["err"] = "parse: " + err.Error()
			return
		}
		fw, err := w.NewTransform(p)
		if err != nil {
			e["err"] = "newtransform: " + err.Error()
			return
		}
		bw, err := p.NewTransform(w)
		if err != nil {
			e["err"] = "newtransform back: " + err.Error()
			return
		}
		if fw == nil || bw == nil {
			// Equal references (plain WGS84 long/lat): the identity
			e["maxdeg9"], e["maxxyum"], e["n"] = 0, 0, len(grid)
			return
		}
		tm := p.ToMeter
		if p.Name == "longlat" {
			tm = 111319.49
		}
		worstDeg, worstXY := 0.0, 0.0
		for _, pt := range grid {
			x, y, err := fw(pt[0], pt[1])
			if err != nil {
				e["err"] = fmt.Sprintf("forward(%v,%v): %v", pt[0], pt[1], err)
				return
			}
			lon, lat, err := bw(x, y)
			if err != nil {
				e["err"] = fmt.Sprintf("inverse(%v,%v): %v", x, y, err)
				return
			}
			x2, y2, err := fw(lon, lat)
			if err != nil {
				e["err"] = fmt.Sprintf("forward again(%v,%v): %v", lon, lat, err)
				return
			}
			dlon := math.Abs(lon - pt[0])
			if dlon > 180 {
				dlon = 360 - dlon
			}
			d := math.Max(dlon, math.Abs(lat-pt[1]))
			if math.IsNaN(d) || math.IsNaN(x2+y2) {
				e["err"] = fmt.Sprintf("NaN at (%v,%v)", pt[0], pt[1])
				return
			}
			worstDeg = math.Max(worstDeg, d)
			worstXY = math.Max(worstXY, math.Max(math.Abs(x2-x), math.Abs(y2-y))*tm)
		}
		cap9 := func(v float64) int {
			if v > 2e9 {
				return 2000000000
			}
			return int(math.Ceil(v))
		}
		e["maxdeg9"], e["maxxyum"], e["n"] = cap9(worstDeg*1e9), cap9(worstXY*1e6), len(grid)
	})
	return []Event{e}
}

func randomC08(rng *rand.Rand, n int) []map[string]interface{} { return nil }

package main

import (
	"math"
	"math/rand"

	"github.com/ctessum/geom"
)

// C02: Point.Within for every query point, and the aggregate receivers.
//
//	{"kind":"poly","polys":[[ring,...],...],"n":N}     all lattice points 0..N (coordinates are halved: half-integers)
//	{"kind":"polyq","polys":...,"pts":[...],"scale":s}  explicit query points; coordinates multiplied by 2^s (exact)
//	{"kind":"agg","recv":..,"vs":[...],"polys":...}
func init() {
	families["c02"] = &Family{Run: runC02, Random: randomC02}
}

func decPolys(v interface{}, dec coordDec) geom.Polygonal {
	a := arr(v)
	if len(a) == 1 {
		return decPolygon(a[0], dec)
	}
	mp := make(geom.MultiPolygon, len(a))
	for i, p := range a {
		mp[i] = decPolygon(p, dec)
	}
	return mp
}

func runC02(c map[string]interface{}) []Event {
	// "sh": polygon and query points times 2^sh (exact): the classification of a point does not depend on the unit
	sh := 0
	if v, ok := c["sh"]; ok {
		sh = num(v)
	}
	half := func(v interface{}) float64 { return math.Ldexp(float64(num(v)), sh-1) }
	switch str(c["kind"]) {
	case "poly":
		pg := decPolys(c["polys"], half)
		n := num(c["n"])
		var pts, res []interface{}
		e := Event{"ev": "within"}
		e["out"] = safely(func() {
			for x := 0; x <= n; x++ {
				for y := 0; y <= n; y++ {
					pts = append(pts, []interface{}{x, y})
					res = append(res, int(geom.Point{X: half(x), Y: half(y)}.Within(pg)))
				}
			}
		})
		e["pts"], e["res"] = pts, res
		// a polygon that is one axis-parallel rectangle is also asked as a *Bounds: the same answers (OnEdge on its boundary)
		if p, ok := pg.(geom.Polygon); ok && len(p) == 1 {
			r := p[0]
			if len(r) == 5 && r[0] == r[4] {
				r = r[:4]
			}
			if len(r) == 4 {
				b := geom.NewBounds()
				for _, v := range r {
					b.Extend(geom.NewBoundsPoint(v))
				}
				onBox := true
				for _, v := range r {
					if (v.X != b.Min.X && v.X != b.Max.X) || (v.Y != b.Min.Y && v.Y != b.Max.Y) {
						onBox = false
					}
				}
				corners := map[geom.Point]bool{}
				for _, v := range r {
					corners[v] = true
				}
				for i := range r { // every edge (the closing one too) runs along an axis: a rectangle, not a bow-tie
					a, c := r[i], r[(i+1)%4]
					if (a.X == c.X) == (a.Y == c.Y) {
						onBox = false
					}
				}
				if onBox && len(corners) == 4 && b.Min.X < b.Max.X && b.Min.Y < b.Max.Y {
					i := 0
					for x := 0; x <= n; x++ {
						for y := 0; y <= n; y++ {
							if i < len(res) && int(geom.Point{X: half(x), Y: half(y)}.Within(b)) != res[i].(int) {
								e["out"] = "the same rectangle as *Bounds disagrees"
							}
							i++
						}
					}
				}
			}
		}
		// the same answers must come back when the polygon is given as a one-member MultiPolygon
		if p, ok := pg.(geom.Polygon); ok {
			i := 0
			for x := 0; x <= n; x++ {
				for y := 0; y <= n; y++ {
					if int(geom.Point{X: half(x), Y: half(y)}.Within(geom.MultiPolygon{p})) != res[i].(int) {
						e["out"] = "multipolygon wrapper disagrees"
					}
					i++
				}
			}
		}
		return []Event{e}
	case "polyq":
		sc := float64(int(1) << uint(num(c["scale"])))
		dec := func(v interface{}) float64 { return float64(num(v)) * sc }
		pg := decPolys(c["polys"], dec)
		var res []interface{}
		e := Event{"ev": "within", "pts": c["pts"]}
		e["out"] = safely(func() {
			for _, p := range arr(c["pts"]) {
				res = append(res, int(decPoint(p, dec).Within(pg)))
			}
		})
		e["res"] = res
		return []Event{e}
	case "agg":
		pg := decPolys(c["polys"], half)
		vs := decPath(c["vs"], half)
		e := Event{"ev": "agg", "res": -1, "splitsame": true}
		e["out"] = safely(func() {
			var r geom.WithinStatus
			switch str(c["recv"]) {
			case "MultiPoint":
				r = geom.MultiPoint(vs).Within(pg)
			case "LineString":
				r = geom.LineString(vs).Within(pg)
			case "MultiLineString":
				// the vertices are distributed over two members in every way that keeps their order (one-vertex members
				// among them): the answer is about the vertices and has to be the same for all of them
				r = geom.MultiLineString{geom.LineString(vs[:2]), geom.LineString(vs[2:])}.Within(pg)
				for k := 1; k < len(vs); k++ {
					if (geom.MultiLineString{geom.LineString(vs[:k]), geom.LineString(vs[k:])}).Within(pg) != r {
						e["splitsame"] = false
					}
				}
			case "Polygon":
				r = geom.Polygon{vs}.Within(pg)
			}
			e["res"] = int(r)
		})
		return []Event{e}
	}
	return []Event{{"ev": "unknown"}}
}

// random polygons with coordinates up to 2^14 and adversarial query points: vertices, points on edges of
// non-primitive direction, points sharing an ordinate with a vertex, points beside horizontal edges
func randomC02(rng *rand.Rand, n int) []map[string]interface{} {
	out := make([]map[string]interface{}, n)
	for i := range out {
		span := []int{8, 40, 400, 16000}[rng.Intn(4)]
		ring := func() []interface{} {
			k := 3 + rng.Intn(10)
			r := make([]interface{}, 0, k+1)
			for j := 0; j < k; j++ {
				if j > 0 && rng.Intn(5) == 0 { // a horizontal or vertical edge
					prev := r[j-1].([]interface{})
					if rng.Intn(2) == 0 {
						r = append(r, []interface{}{rng.Intn(span), prev[1]})
					} else {
						r = append(r, []interface{}{prev[0], rng.Intn(span)})
					}
					continue
				}
				r = append(r, []interface{}{rng.Intn(span), rng.Intn(span)})
			}
			if rng.Intn(2) == 0 {
				r = append(r, r[0])
			}
			return r
		}
		var polys []interface{}
		var verts [][2]int
		for p := 0; p < 1+rng.Intn(2); p++ {
			var rings []interface{}
			for q := 0; q < 1+rng.Intn(3); q++ {
				r := ring()
				rings = append(rings, r)
				for _, v := range r {
					a := v.([]interface{})
					verts = append(verts, [2]int{a[0].(int), a[1].(int)})
				}
			}
			polys = append(polys, rings)
		}
		var pts []interface{}
		for q := 0; q < 24; q++ {
			v, w := verts[rng.Intn(len(verts))], verts[rng.Intn(len(verts))]
			switch rng.Intn(5) {
			case 0:
				pts = append(pts, []interface{}{v[0], v[1]})
			case 1: // a lattice point on segment v-w when the direction is not primitive
				dx, dy := w[0]-v[0], w[1]-v[1]
				g := gcd(absI(dx), absI(dy))
				if g > 1 {
					t := 1 + rng.Intn(g-1)
					pts = append(pts, []interface{}{v[0] + dx/g*t, v[1] + dy/g*t})
				} else {
					pts = append(pts, []interface{}{v[0] - 1, v[1]})
				}
			case 2:
				pts = append(pts, []interface{}{rng.Intn(span), v[1]})
			case 3:
				pts = append(pts, []interface{}{v[0] + rng.Intn(3) - 1, v[1] + rng.Intn(3) - 1})
			default:
				pts = append(pts, []interface{}{rng.Intn(span), rng.Intn(span)})
			}
		}
		out[i] = map[string]interface{}{"kind": "polyq", "polys": polys, "pts": pts, "scale": rng.Intn(3) * 10}
	}
	return out
}

func gcd(a, b int) int {
	for b != 0 {
		a, b = b, a%b
	}
	return a
}
func absI(a int) int {
	if a < 0 {
		return -a
	}
	return a
}

package main

import (
	"bytes"
	"context"
	"fmt"
	"io"
	"io/ioutil"
	"math/rand"
	"os"
	"runtime"
	"sort"
	"strings"
	"sync"
	"sync/atomic"
	"time"

	"github.com/ctessum/geom"
	gosm "github.com/ctessum/geom/encoding/osm"
)

// C18: OSM extraction.  A case is a document (file order, members, in-bounds
// nodes, tagged objects), a keep function and either
//
//	mode "gated": a TLC schedule (sequence of {o, a} steps) - the real worker
//	              goroutines are parked at the verif yield points and released
//	              one lock-delimited step at a time, following the schedule and
//	              continuing with seeded random choices when it ends;
//	mode "free":  plain repeated extraction under several GOMAXPROCS values.
//
// Every run ends with a "result" event (ids kept, Check()) and "filter" events.
func init() {
	families["c18"] = &Family{Run: runC18, Random: randomC18, Sandbox: true, DeadlineMS: 30000}
}

type osmObj struct {
	kind byte
	id   int64
}

func (o osmObj) key() string { return fmt.Sprintf("%c%d", o.kind, o.id) }
func (o osmObj) json() []interface{} {
	return []interface{}{string([]byte{o.kind}), o.id}
}

func objOf(v interface{}) osmObj {
	a := arr(v)
	return osmObj{kind: str(a[0])[0], id: int64(num(a[1]))}
}

type osmDoc struct {
	order []osmObj
	mem   map[string][]osmObj
	inb   map[string]bool
	tag   map[string]bool
}

func parseDoc(v interface{}) *osmDoc {
	m := v.(map[string]interface{})
	d := &osmDoc{mem: map[string][]osmObj{}, inb: map[string]bool{}, tag: map[string]bool{}}
	for _, o := range arr(m["order"]) {
		d.order = append(d.order, objOf(o))
	}
	for _, p := range arr(m["mem"]) {
		pa := arr(p)
		var ms []osmObj
		for _, x := range arr(pa[1]) {
			ms = append(ms, objOf(x))
		}
		d.mem[objOf(pa[0]).key()] = ms
	}
	for _, o := range arr(m["inb"]) {
		d.inb[objOf(o).key()] = true
	}
	for _, o := range arr(m["tag"]) {
		d.tag[objOf(o).key()] = true
	}
	return d
}

func (d *osmDoc) xml() []byte {
	var b bytes.Buffer
	b.WriteString("<?xml version=\"1.0\" encoding=\"UTF-8\"?>\n<osm version=\"0.6\" generator=\"verif\">\n")
	// "selected by tag" is spelled in several ways against the two-key filter of keepFn("tags") (k = v or v2, or any name): the
	// first key with a listed value; the first key with another value followed by the second key; an unrelated tag followed by
	// the second listed value; the second key alone.  Unselected objects carry an unrelated tag or the first key with a value
	// that is not listed.
	tag := func(o osmObj) string {
		if d.tag[o.key()] {
			switch o.id % 4 {
			case 0:
				return "<tag k=\"k\" v=\"v\"/>"
			case 1:
				return "<tag k=\"k\" v=\"zz\"/><tag k=\"name\" v=\"a\"/>"
			case 2:
				return "<tag k=\"other\" v=\"x\"/><tag k=\"k\" v=\"v2\"/>"
			}
			return "<tag k=\"name\" v=\"b\"/>"
		}
		if o.id%3 == 1 {
			return "<tag k=\"k\" v=\"zz\"/><tag k=\"other\" v=\"y\"/>"
		}
		return "<tag k=\"other\" v=\"x\"/>"
	}
	for _, o := range d.order {
		switch o.kind {
		case 'n':
			lat, lon := 5.0+float64(o.id%7)*0.01, 5.0
			if d.inb[o.key()] {
				lat, lon = 0.25+float64(o.id%5)*0.1, 0.5
				switch o.id % 4 { // a node on the boundary of the box is in the box: on its east edge, on its north edge, at its south-west corner
				case 1:
					lon = 1
				case 2:
					lat = 1
				case 3:
					lat, lon = 0, 0
				}
			}
			fmt.Fprintf(&b, " <node id=\"%d\" lat=\"%g\" lon=\"%g\" version=\"1\">%s</node>\n", o.id, lat, lon, tag(o))
		case 'w':
			fmt.Fprintf(&b, " <way id=\"%d\" version=\"1\">", o.id)
			for _, m := range d.mem[o.key()] {
				fmt.Fprintf(&b, "<nd ref=\"%d\"/>", m.id)
			}
			fmt.Fprintf(&b, "%s</way>\n", tag(o))
		case 'r':
			fmt.Fprintf(&b, " <relation id=\"%d\" version=\"1\">", o.id)
			for _, m := range d.mem[o.key()] {
				t := map[byte]string{'n': "node", 'w': "way", 'r': "relation"}[m.kind]
				fmt.Fprintf(&b, "<member type=\"%s\" ref=\"%d\" role=\"\"/>", t, m.id)
			}
			fmt.Fprintf(&b, "%s</relation>\n", tag(o))
		}
	}
	b.WriteString("</osm>\n")
	return b.Bytes()
}

func keepFn(name string) gosm.KeepFunc {
	switch name {
	case "tags":
		return gosm.KeepTags(map[string][]string{"k": {"v", "v2"}, "name": {}})
	case "bounds":
		return gosm.KeepBounds(&geom.Bounds{Min: geom.Point{X: 0, Y: 0}, Max: geom.Point{X: 1, Y: 1}})
	}
	return gosm.KeepAll()
}

func dataIDs(d *gosm.Data) (ns, ws, rs []interface{}) {
	var a, b, c []int64
	for id := range d.Nodes {
		a = append(a, int64(id))
	}
	for id := range d.Ways {
		b = append(b, int64(id))
	}
	for id := range d.Relations {
		c = append(c, int64(id))
	}
	f := func(x []int64) []interface{} {
		sort.Slice(x, func(i, j int) bool { return x[i] < x[j] })
		out := make([]interface{}, len(x))
		for i, v := range x {
			out[i] = v
		}
		return out
	}
	return f(a), f(b), f(c)
}

func sameIDs(x, y *gosm.Data) bool {
	a1, b1, c1 := dataIDs(x)
	a2, b2, c2 := dataIDs(y)
	return fmt.Sprint(a1, b1, c1) == fmt.Sprint(a2, b2, c2)
}

func resultEvents(data *gosm.Data, err error, keep, mode string, followed bool, passes int, withFilter bool) []Event {
	e := Event{"ev": "result", "keep": keep, "mode": mode, "followed": followed, "passes": passes,
		"nodes": []interface{}{}, "ways": []interface{}{}, "rels": []interface{}{}, "err": "", "check": "none"}
	if err != nil {
		e["err"] = err.Error()
		return []Event{e}
	}
	if data == nil {
		e["err"] = "nil data"
		return []Event{e}
	}
	e["nodes"], e["ways"], e["rels"] = dataIDs(data)
	out := safely(func() {
		if cerr := data.Check(); cerr != nil {
			e["check"] = "err"
			e["checkmsg"] = cerr.Error()
		} else {
			e["check"] = "ok"
		}
	})
	if out != "ok" {
		e["err"] = "check " + out
	}
	evs := []Event{e}
	if withFilter {
		for _, fk := range []string{"tags", "all"} {
			fe := Event{"ev": "filter", "keep": fk, "nodes": []interface{}{}, "ways": []interface{}{}, "rels": []interface{}{}, "again_same": false}
			fe["out"] = safely(func() {
				f := data.Filter(keepFn(fk))
				f2 := f.Filter(keepFn(fk))
				fe["nodes"], fe["ways"], fe["rels"] = dataIDs(f)
				fe["again_same"] = sameIDs(f, f2)
			})
			evs = append(evs, fe)
		}
	}
	return evs
}

// ---------------------------------------------------------------- gated replay

type gateArr struct {
	point string
	o     osmObj
	rel   chan struct{}
}

type recEv struct {
	ev        string
	o         osmObj
	has, need bool
}

var gateToAct = map[string]string{"got": "Self", "keep": "KeepStep", "store": "Store", "dep": "Dep", "needw": "DepW", "done": "Fin"}

func runGated(c map[string]interface{}, doc *osmDoc, keep string, w int) []Event {
	var evs []Event
	xml := doc.xml()
	arrCh := make(chan gateArr)
	passCh := make(chan bool, 64)
	var free int32
	var recMu sync.Mutex
	var recs []recEv
	gosm.VerifGate = func(point string, kind byte, id int64) {
		if atomic.LoadInt32(&free) == 1 {
			return
		}
		a := gateArr{point, osmObj{kind, id}, make(chan struct{})}
		arrCh <- a
		<-a.rel
	}
	gosm.VerifRec = func(ev string, kind byte, id int64, has, need bool) {
		if ev == "passend" {
			passCh <- has
			return
		}
		recMu.Lock()
		recs = append(recs, recEv{ev, osmObj{kind, id}, has, need})
		recMu.Unlock()
	}
	defer func() { gosm.VerifGate, gosm.VerifRec = nil, nil }()
	old := runtime.GOMAXPROCS(w)
	defer runtime.GOMAXPROCS(old)

	var data *gosm.Data
	var xerr error
	doneCh := make(chan struct{})
	go func() {
		defer close(doneCh)
		defer func() {
			if r := recover(); r != nil {
				xerr = fmt.Errorf("panic: %v", r)
			}
		}()
		data, xerr = gosm.ExtractXML(context.Background(), bytes.NewReader(xml), keepFn(keep), true)
	}()

	pos := map[string]int{}
	for i, o := range doc.order {
		pos[o.key()] = i
	}
	nObjs := len(doc.order)
	parked := map[string]gateArr{} // worker (by its object) -> where it is parked
	gotCount, passes := 0, 1
	running := "" // worker released and not yet back at a gate
	var runAct, runM = "", osmObj{}
	var newGots []osmObj
	finished, followed := false, true
	rng := rand.New(rand.NewSource(seed()*1000003 + int64(len(xml))))
	var sched []interface{}
	if v, ok := c["sched"]; ok {
		sched = arr(v)
	}
	si := 0
	schedDeadline := 15 * time.Second
	if os.Getenv("VERIF_DEADLINE_SCALE") == "2" {
		schedDeadline *= 2
	}
	deadline := time.After(schedDeadline)

	step := func(o osmObj, act string, extra Event) {
		e := Event{"ev": "step", "o": o.json(), "a": act, "has": false, "need": false, "m": []interface{}{"x", 0}, "again": false}
		for k, v := range extra {
			e[k] = v
		}
		evs = append(evs, e)
	}
	flushGots := func() {
		sort.Slice(newGots, func(i, j int) bool { return pos[newGots[i].key()] < pos[newGots[j].key()] })
		for _, o := range newGots {
			step(o, "Take", nil)
		}
		newGots = nil
	}
	expectGots := func() int {
		rem, idle := nObjs-gotCount, w-len(parked)
		if running != "" {
			idle--
		}
		if rem < idle {
			return rem
		}
		return idle
	}
	finishStep := func() { // the running worker is back at a gate (or gone): log what it did
		if running == "" {
			return
		}
		recMu.Lock()
		rs := recs
		recs = nil
		recMu.Unlock()
		ex := Event{}
		if runAct == "KeepStep" || runAct == "Dep" || runAct == "DepW" {
			ex["m"] = runM.json()
		}
		for _, r := range rs {
			if r.ev == "hn" {
				ex["has"], ex["need"] = r.has, r.need
				break
			}
		}
		o := osmObj{running[0], 0}
		fmt.Sscanf(running[1:], "%d", &o.id)
		step(o, runAct, ex)
		running = ""
	}
	// an object taken after every object of the current pass has been taken belongs to the next pass: the end-of-pass
	// notification travels on another channel and may be seen later than the first takes of the next pass
	var early []gateArr
	var handle func(a gateArr)
	handle = func(a gateArr) {
		if a.point == "got" && gotCount == nObjs {
			early = append(early, a)
			return
		}
		if a.point == "got" {
			parked[a.o.key()] = a
			gotCount++
			newGots = append(newGots, a.o)
			return
		}
		// any other arrival belongs to the worker that was released last
		if running == "" {
			followed = false
			return
		}
		k := running
		finishStep()
		parked[k] = a
	}

	for !finished {
		// pump events until quiescent
		quiet := false
		for !quiet && !finished {
			boundary := running == "" && gotCount == nObjs && len(parked) == 0
			if running == "" && expectGots() == 0 && !boundary {
				quiet = true
				break
			}
			select {
			case a := <-arrCh:
				handle(a)
			case again := <-passCh:
				flushGots()
				step(osmObj{'p', 0}, "PassEnd", Event{"again": again})
				if again {
					gotCount = 0
					passes++
					es := early
					early = nil
					for _, a := range es {
						handle(a)
					}
				} else {
					<-doneCh
					finished = true
				}
			case <-doneCh:
				finished = true
			case <-deadline:
				atomic.StoreInt32(&free, 1)
				for _, a := range parked {
					close(a.rel)
				}
				return append(evs, Event{"ev": "result", "keep": keep, "mode": "gated", "followed": false, "passes": passes,
					"nodes": []interface{}{}, "ways": []interface{}{}, "rels": []interface{}{}, "err": "harness: scheduler deadline", "check": "none", "hang": true})
			}
		}
		if finished {
			break
		}
		flushGots()
		// choose the next worker to release: the schedule's, else a seeded random one
		var pick string
		for si < len(sched) {
			s := sched[si].(map[string]interface{})
			a := str(s["a"])
			if a == "Take" || a == "PassEnd" {
				si++
				continue
			}
			o := objOf(s["o"])
			if p, ok := parked[o.key()]; ok && gateToAct[p.point] == a {
				pick = o.key()
			} else {
				followed = false // the implementation is not where the schedule expects it: drift
				si = len(sched)
			}
			si++
			break
		}
		if pick == "" {
			keys := make([]string, 0, len(parked))
			for k := range parked {
				keys = append(keys, k)
			}
			sort.Strings(keys)
			pick = keys[rng.Intn(len(keys))]
		}
		p := parked[pick]
		delete(parked, pick)
		act := gateToAct[p.point]
		if act == "Fin" {
			o := osmObj{pick[0], 0}
			fmt.Sscanf(pick[1:], "%d", &o.id)
			recMu.Lock()
			recs = nil
			recMu.Unlock()
			step(o, "Fin", nil)
			close(p.rel)
			continue
		}
		running, runAct, runM = pick, act, p.o
		recMu.Lock()
		recs = nil
		recMu.Unlock()
		close(p.rel)
	}
	return append(evs, resultEvents(data, xerr, keep, "gated", followed, passes, true)...)
}

func runFree(doc *osmDoc, keep string, procs []int, runs int) []Event {
	var evs []Event
	xml := doc.xml()
	gosm.VerifGate, gosm.VerifRec = nil, nil
	old := runtime.GOMAXPROCS(0)
	defer runtime.GOMAXPROCS(old)
	first := true
	for _, p := range procs {
		runtime.GOMAXPROCS(p)
		for i := 0; i < runs; i++ {
			var data *gosm.Data
			var err error
			// every other repetition asks for the objects without their tags: which objects are extracted is the same
			keepTags := i%2 == 0
			// every third repetition hands over a reader that has already been read (to its end, or part of the way): the
			// extraction is of the document, wherever the reader happens to stand
			rd := bytes.NewReader(xml)
			switch i % 3 {
			case 1:
				io.Copy(ioutil.Discard, rd)
			case 2:
				rd.Seek(int64(len(xml)/2), 0)
			}
			out := safely(func() {
				data, err = gosm.ExtractXML(context.Background(), rd, keepFn(keep), keepTags)
			})
			if out != "ok" {
				err = fmt.Errorf("%s", out)
			}
			es := resultEvents(data, err, keep, "free", false, 0, first)
			es[0]["procs"] = p
			es[0]["keeptags"] = keepTags
			evs = append(evs, es...)
			first = false
		}
	}
	return evs
}

func runC18(c map[string]interface{}) []Event {
	doc := parseDoc(c["doc"])
	keep := str(c["keep"])
	if str(c["mode"]) == "free" {
		var procs []int
		for _, p := range arr(c["procs"]) {
			procs = append(procs, num(p))
		}
		return runFree(doc, keep, procs, num(c["runs"]))
	}
	return runGated(c, doc, keep, num(c["w"]))
}

// random documents (up to ~40 objects): shared nodes, relations of relations, cycles, objects
// straddling the bounds, dangling references, standard and shuffled element order
func randomDoc(rng *rand.Rand) map[string]interface{} {
	nn, nw, nr := 1+rng.Intn(16), rng.Intn(14), rng.Intn(8)
	if rng.Intn(4) == 0 {
		nn, nw, nr = 20, 20, 1 // the 41-element shape
	}
	var order []interface{}
	var mem []interface{}
	var inb, tag []interface{}
	O := func(k string, i int) []interface{} { return []interface{}{k, i} }
	for i := 1; i <= nn; i++ {
		order = append(order, O("n", i))
		if rng.Intn(3) == 0 {
			inb = append(inb, O("n", i))
		}
		if rng.Intn(8) == 0 {
			tag = append(tag, O("n", i))
		}
	}
	for i := 1; i <= nw; i++ {
		order = append(order, O("w", i))
		k := 1 + rng.Intn(4)
		var ms []interface{}
		for j := 0; j < k; j++ {
			id := 1 + rng.Intn(nn)
			if rng.Intn(30) == 0 {
				id = 900 + rng.Intn(3) // dangling
			}
			ms = append(ms, O("n", id))
		}
		mem = append(mem, []interface{}{O("w", i), ms})
		if rng.Intn(4) == 0 {
			tag = append(tag, O("w", i))
		}
	}
	for i := 1; i <= nr; i++ {
		order = append(order, O("r", i))
		k := 1 + rng.Intn(3)
		var ms []interface{}
		for j := 0; j < k; j++ {
			switch x := rng.Intn(6); {
			case x < 2:
				ms = append(ms, O("n", 1+rng.Intn(nn)))
			case x < 4 && nw > 0:
				ms = append(ms, O("w", 1+rng.Intn(nw)))
			default:
				ms = append(ms, O("r", 1+rng.Intn(nr)))
			}
		}
		mem = append(mem, []interface{}{O("r", i), ms})
		if rng.Intn(3) == 0 {
			tag = append(tag, O("r", i))
		}
	}
	switch rng.Intn(4) {
	case 0:
		rng.Shuffle(len(order), func(i, j int) { order[i], order[j] = order[j], order[i] })
	case 1: // reversed kinds
		for i, j := 0, len(order)-1; i < j; i, j = i+1, j-1 {
			order[i], order[j] = order[j], order[i]
		}
	}
	nz := func(x []interface{}) []interface{} {
		if x == nil {
			return []interface{}{}
		}
		return x
	}
	return map[string]interface{}{"order": nz(order), "mem": nz(mem), "inb": nz(inb), "tag": nz(tag)}
}

func randomC18(rng *rand.Rand, n int) []map[string]interface{} {
	keeps := []string{"bounds", "tags", "all", "bounds"}
	out := make([]map[string]interface{}, n)
	for i := range out {
		d := randomDoc(rng)
		k := keeps[i%len(keeps)]
		if i%3 == 0 {
			out[i] = map[string]interface{}{"mode": "gated", "w": 2 + rng.Intn(3), "keep": k, "doc": d, "sched": []interface{}{}}
		} else {
			out[i] = map[string]interface{}{"mode": "free", "w": 2, "keep": k, "doc": d, "runs": 6, "procs": []interface{}{1, 2, 4, 16}}
		}
	}
	return out
}

var _ = strings.TrimSpace

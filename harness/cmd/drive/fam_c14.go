package main

import (
	"fmt"
	"math"
	"math/big"
	"math/rand"

	"github.com/ctessum/geom"
)

// C14: LineString.Clip / MultiLineString.Clip.  Output vertices are mapped to descriptors:
//
//	{"k":"V","m":member,"i":vertex}                  exact equality with a line vertex
//	{"k":"X","m":member,"i":segment,"r":ring,"e":edge} the unique proper crossing whose exact point is within 1e-9
//	{"k":"?"}                                          no or ambiguous match
func init() {
	families["c14"] = &Family{Run: runC14, Random: randomC14, Sandbox: true, DeadlineMS: 10000}
}

type ipt struct{ x, y int64 }

func ratCross(a, b, c, d ipt) (*big.Rat, *big.Rat, bool) {
	// intersection of lines a-b and c-d (not parallel), as exact rationals; ok only if it lies within both segments
	den := (b.x-a.x)*(d.y-c.y) - (b.y-a.y)*(d.x-c.x)
	if den == 0 {
		return nil, nil, false
	}
	tn := (c.x-a.x)*(d.y-c.y) - (c.y-a.y)*(d.x-c.x)
	un := (c.x-a.x)*(b.y-a.y) - (c.y-a.y)*(b.x-a.x)
	t := big.NewRat(tn, den)
	u := big.NewRat(un, den)
	zero, one := big.NewRat(0, 1), big.NewRat(1, 1)
	if t.Cmp(zero) <= 0 || t.Cmp(one) >= 0 || u.Cmp(zero) <= 0 || u.Cmp(one) >= 0 {
		return nil, nil, false
	}
	x := new(big.Rat).Add(big.NewRat(a.x, 1), new(big.Rat).Mul(t, big.NewRat(b.x-a.x, 1)))
	y := new(big.Rat).Add(big.NewRat(a.y, 1), new(big.Rat).Mul(t, big.NewRat(b.y-a.y, 1)))
	return x, y, true
}

func runC14(c map[string]interface{}) []Event {
	var lines [][]ipt
	for _, l := range arr(c["lines"]) {
		var pts []ipt
		for _, p := range arr(l) {
			a := arr(p)
			pts = append(pts, ipt{int64(num(a[0])), int64(num(a[1]))})
		}
		lines = append(lines, pts)
	}
	pm := c["poly"].(map[string]interface{})
	var rings [][]ipt
	for _, pg := range arr(pm["polys"]) {
		for _, r := range arr(pg) {
			var pts []ipt
			for _, p := range arr(r) {
				a := arr(p)
				pts = append(pts, ipt{int64(num(a[0])), int64(num(a[1]))})
			}
			rings = append(rings, pts)
		}
	}
	// optional magnitude shift: every coordinate times 2^sh (exact), the result divided again before it is described
	f := 1.0
	if v, ok := c["sh"]; ok {
		f = math.Ldexp(1, num(v))
	}
	shDec := func(v interface{}) float64 { return float64(num(v)) * f }
	P := buildOperand(pm["polys"], str(pm["t"]), 1/f)
	e := Event{"ev": "clip", "pieces": []interface{}{}, "empty": true, "again": false, "dense": false, "moved": false}
	e["out"] = safely(func() {
		var res geom.Linear
		if ml, _ := c["ml"].(bool); ml {
			var g geom.MultiLineString
			for _, l := range arr(c["lines"]) {
				g = append(g, geom.LineString(decPath(l, shDec)))
			}
			res = g.Clip(P)
		} else {
			res = geom.LineString(decPath(arr(c["lines"])[0], shDec)).Clip(P)
		}
		out, ok := res.(geom.MultiLineString)
		if !ok {
			e["out2"] = "not a MultiLineString"
			return
		}
		// the same polygon value is used again: a second Clip of the same line gives the same pieces
		var res2 geom.Linear
		if ml, _ := c["ml"].(bool); ml {
			var g geom.MultiLineString
			for _, l := range arr(c["lines"]) {
				g = append(g, geom.LineString(decPath(l, shDec)))
			}
			res2 = g.Clip(P)
		} else {
			res2 = geom.LineString(decPath(arr(c["lines"])[0], shDec)).Clip(P)
		}
		e["again"] = fmt.Sprint(res2) == fmt.Sprint(res)
		// the polygon is then moved in place (every vertex of the same value shifted by (64, 0), exactly) and the line moved
		// with it: the pieces are the moved pieces - what a Clip call answers depends on the polygon as it is now
		e["moved"] = true
		if ml, _ := c["ml"].(bool); !ml && f == 1 {
			shift := func(pts []geom.Point) {
				for i := range pts {
					pts[i].X += 64
				}
			}
			movedOK := false
			switch x := P.(type) {
			case geom.Polygon:
				for _, r := range x {
					shift(r)
				}
				movedOK = true
			case geom.MultiPolygon:
				for _, p := range x {
					for _, r := range p {
						shift(r)
					}
				}
				movedOK = true
			}
			if movedOK {
				l := geom.LineString(decPath(arr(c["lines"])[0], shDec))
				shift(l)
				m1, _ := res.(geom.MultiLineString)
				m2, _ := l.Clip(P).(geom.MultiLineString)
				if math.Abs(m1.Length()-m2.Length()) > 1e-9*(1+m1.Length()) || len(m1) != len(m2) {
					e["moved"] = false
				}
				// and back, for what follows
				switch x := P.(type) {
				case geom.Polygon:
					for _, r := range x {
						for i := range r {
							r[i].X -= 64
						}
					}
				case geom.MultiPolygon:
					for _, p := range x {
						for _, r := range p {
							for i := range r {
								r[i].X -= 64
							}
						}
					}
				}
			}
		}
		// a line is the set of its points: the same single line with every segment cut into 257 pieces (more vertices than
		// any plausible working buffer) is clipped to the same total length, as a line string and as a one-member multi-line
		e["dense"] = true
		if ml, _ := c["ml"].(bool); !ml && f == 1 {
			l := geom.LineString(decPath(arr(c["lines"])[0], shDec))
			var d geom.LineString
			for i := 0; i+1 < len(l); i++ {
				for k := 0; k < 257; k++ {
					t := float64(k) / 257
					d = append(d, geom.Point{X: l[i].X + (l[i+1].X-l[i].X)*t, Y: l[i].Y + (l[i+1].Y-l[i].Y)*t})
				}
			}
			d = append(d, l[len(l)-1])
			total := func(x geom.Linear) float64 {
				m, _ := x.(geom.MultiLineString)
				return m.Length()
			}
			want := total(res)
			for _, got := range []float64{total(d.Clip(P)), total(geom.MultiLineString{d}.Clip(P))} {
				if math.Abs(got-want) > 1e-9*(1+want) {
					e["dense"] = false
					e["densenote"] = fmt.Sprintf("dense %v plain %v", got, want)
				}
			}
		}
		var pieces []interface{}
		n := 0
		for _, pc := range out {
			var ds []interface{}
			for _, v := range pc {
				ds = append(ds, describeC14(geom.Point{X: v.X / f, Y: v.Y / f}, lines, rings))
				n++
			}
			if ds == nil {
				ds = []interface{}{}
			}
			pieces = append(pieces, ds)
		}
		if pieces == nil {
			pieces = []interface{}{}
		}
		e["pieces"] = pieces
		e["empty"] = n == 0
	})
	return []Event{e}
}

func describeC14(v geom.Point, lines, rings [][]ipt) map[string]interface{} {
	for m, l := range lines {
		for i, p := range l {
			if v.X == float64(p.x) && v.Y == float64(p.y) {
				return map[string]interface{}{"k": "V", "m": m + 1, "i": i + 1, "r": 0, "e": 0}
			}
		}
	}
	var found []map[string]interface{}
	for m, l := range lines {
		for i := 0; i+1 < len(l); i++ {
			for r, ring := range rings {
				for k := range ring {
					x, y, ok := ratCross(l[i], l[i+1], ring[k], ring[(k+1)%len(ring)])
					if !ok {
						continue
					}
					fx, _ := x.Float64()
					fy, _ := y.Float64()
					if math.Abs(fx-v.X) <= 1e-9 && math.Abs(fy-v.Y) <= 1e-9 {
						found = append(found, map[string]interface{}{"k": "X", "m": m + 1, "i": i + 1, "r": r + 1, "e": k + 1})
					}
				}
			}
		}
	}
	if len(found) == 1 {
		return found[0]
	}
	return map[string]interface{}{"k": "?", "m": 0, "i": 0, "r": 0, "e": len(found)}
}

// random lines on a 64-lattice against random lattice triangles / convex quads; TLC filters for general position
// inside the trace spec (cases outside the domain are rejected by the *generator side* below: only cases whose
// integer pre-check passes are emitted; the trace spec re-decides)
func randomC14(rng *rand.Rand, n int) []map[string]interface{} {
	out := make([]map[string]interface{}, 0, n)
	for len(out) < n {
		span := []int{8, 16, 64}[rng.Intn(3)]
		pt := func() [2]int { return [2]int{rng.Intn(span + 1), rng.Intn(span + 1)} }
		// polygon: a triangle or a box (as Polygon or *Bounds)
		var ring [][2]int
		typ := "Polygon"
		if rng.Intn(2) == 0 {
			a, b, cc := pt(), pt(), pt()
			if (b[0]-a[0])*(cc[1]-a[1])-(b[1]-a[1])*(cc[0]-a[0]) == 0 {
				continue
			}
			ring = [][2]int{a, b, cc}
		} else {
			x1, y1 := rng.Intn(span), rng.Intn(span)
			x2, y2 := x1+1+rng.Intn(span-x1), y1+1+rng.Intn(span-y1)
			ring = [][2]int{{x1, y1}, {x2, y1}, {x2, y2}, {x1, y2}}
			if rng.Intn(2) == 0 {
				typ = "Bounds"
			}
		}
		k := 2 + rng.Intn(4)
		var line [][2]int
		for len(line) < k {
			line = append(line, pt())
		}
		// integer pre-check of the domain: simple line, no line vertex on the ring, no ring vertex on the line
		ok := true
		for i := 0; i+1 < len(line) && ok; i++ {
			if line[i] == line[i+1] {
				ok = false
			}
			for j := i + 1; j+1 < len(line) && ok; j++ {
				if j == i+1 {
					a, b, cc := line[i], line[i+1], line[j+1]
					if (b[0]-a[0])*(cc[1]-a[1])-(b[1]-a[1])*(cc[0]-a[0]) == 0 {
						ok = false // keep it simple: no collinear consecutive segments
					}
					continue
				}
				if segsMeetInt(line[i], line[i+1], line[j], line[j+1]) {
					ok = false
				}
			}
		}
		for _, v := range line {
			for q := range ring {
				if segsMeetInt(v, v, ring[q], ring[(q+1)%len(ring)]) {
					ok = false
				}
			}
		}
		for _, v := range ring {
			for i := 0; i+1 < len(line); i++ {
				if segsMeetInt(v, v, line[i], line[i+1]) {
					ok = false
				}
			}
		}
		if !ok {
			continue
		}
		enc := func(r [][2]int) []interface{} {
			o := make([]interface{}, len(r))
			for i, p := range r {
				o[i] = []interface{}{p[0], p[1]}
			}
			return o
		}
		out = append(out, map[string]interface{}{"kind": "clip", "lines": []interface{}{enc(line)}, "ml": false,
			"poly": map[string]interface{}{"t": typ, "polys": []interface{}{[]interface{}{enc(ring)}}}})
	}
	return out
}

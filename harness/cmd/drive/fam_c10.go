package main

import (
	"errors"
	"fmt"
	"math"
	"math/rand"
	"reflect"
	"strings"

	"github.com/ctessum/geom"
	"github.com/ctessum/geom/proj"
)

// C10: (a) histories of Parse / NewTransform / Call on the real proj package, compared with the
// answers of brand-new transformers; (b) Geom.Transform with a counting fake transformer.
func init() {
	families["c10"] = &Family{Run: runC10, Random: randomC10, Sandbox: true, DeadlineMS: 20000, Prepare: c10Finish}
}

// definition table; index = definition id of ProjState.tla (1-based)
var c10Defs = []struct {
	text, name string
}{
	{"+proj=longlat +ellps=WGS84 +datum=WGS84 +units=degrees", "WGS84"},
	{"+proj=merc +a=6378137 +b=6378137 +lat_ts=0.0 +lon_0=0.0 +x_0=0.0 +y_0=0 +k=1.0 +units=m +nadgrids=@null +no_defs", "EPSG:3857"},
	{"+proj=utm +zone=15 +datum=WGS84 +units=m +no_defs", ""},
	{"+proj=lcc +lat_1=33 +lat_2=45 +lat_0=40 +lon_0=-97 +x_0=0 +y_0=0 +ellps=clrk66 +R_A +towgs84=-8,160,176 +units=m +no_defs", ""}, // (+R_A: the semi-major axis is reduced while the constants are derived - once)
	// (a Krovak definition that does not name the Bessel ellipsoid: the projection's set-up writes Bessel's semi-major axis into
	// the shared reference during its first use)
	{"+proj=krovak +lat_0=49.5 +lon_0=24.83333333333333 +alpha=30.28813972222222 +k=0.9999 +x_0=0 +y_0=0 +ellps=WGS84 +towgs84=598.1,73.7,418.2,0.202,0.045,-2.455,6.7 +units=m +no_defs", ""},
	{"+proj=longlat +datum=WGS84 +axis=wnu +no_defs", ""},
	{"+proj=longlat +ellps=intl +towgs84=-87,-98,-121 +no_defs", ""},
	// a definition whose projection set-up fails (standard parallels symmetric about the equator): every call of a
	// transformer to or from it must report that error, the first call and every later one
	{"+proj=aea +lat_1=-30 +lat_2=30 +lat_0=0 +lon_0=-96 +x_0=0 +y_0=0 +ellps=GRS80 +units=m +no_defs", ""},
}

// geographic sample positions (lon, lat), valid for every definition above
// (the second one is written in the 0..360 convention: a longitude outside [-180, 180] is legal input and must be treated
// the same way on every call)
// the third one is the origin: the one input whose coordinates equal the zero value of a float64
var c10Pos = [][2]float64{{-93.25, 44.5}, {268.25, 38.125}, {0, 0}}

func internXY(x, y float64, err error, pan string) string {
	if pan != "ok" {
		return pan
	}
	if err != nil {
		s := err.Error()
		if len(s) > 60 {
			s = s[:60]
		}
		return "err:" + s
	}
	return fmt.Sprintf("v:%016x:%016x", math.Float64bits(x), math.Float64bits(y))
}

func freshSR(d int) (*proj.SR, error) { return proj.Parse(c10Defs[d-1].text) }

// samplePoint gives position k in the coordinates of definition d, computed by a brand-new transformer.
func samplePoint(d, k int) (float64, float64, error) {
	lon, lat := c10Pos[k-1][0], c10Pos[k-1][1]
	if d == 1 || d == 8 { // (nothing can be projected into definition 8: any fixed input will do)
		return lon, lat, nil
	}
	w, err := freshSR(1)
	if err != nil {
		return 0, 0, err
	}
	s, err := freshSR(d)
	if err != nil {
		return 0, 0, err
	}
	t, err := w.NewTransform(s)
	if err != nil || t == nil {
		return 0, 0, fmt.Errorf("no transformer to def %d: %v", d, err)
	}
	var x, y float64
	out := safely(func() { x, y, err = t(lon, lat) })
	if out != "ok" {
		// a definition whose own destination pipeline panics: derive the point by hand where possible
		if d == 6 {
			return -lon, lat, nil
		}
		return 0, 0, fmt.Errorf("%s", out)
	}
	return x, y, err
}

func freshAnswer(sd, dd, k int) string {
	px, py, err := samplePoint(sd, k)
	if err != nil {
		return "nosample:" + err.Error()
	}
	s, e1 := freshSR(sd)
	d, e2 := freshSR(dd)
	if e1 != nil || e2 != nil {
		return "noparse"
	}
	t, err := s.NewTransform(d)
	if err != nil {
		return "err:newtransform " + err.Error()
	}
	if t == nil {
		return "nil"
	}
	var x, y float64
	out := safely(func() { x, y, err = t(px, py) })
	return internXY(x, y, err, out)
}

// the text a history parses for definition d: in every other case the parameters that equal their defaults (a zero
// false origin) are left out of the definitions whose set-up supplies them - the reference is the same
// one, and the fresh table is always computed from the full spelling
func c10HistText(d int, minimal bool) string {
	t := c10Defs[d-1].text
	if minimal && (d == 2 || d == 4) {
		for _, tok := range []string{" +x_0=0.0", " +x_0=0", " +y_0=0"} {
			t = strings.Replace(t, tok, "", 1)
		}
	}
	if minimal && d == 6 {
		// the same plane convention written with the height letter in the middle (west, down, north): for the two
		// coordinates a transformer handles it is +axis=wnu
		t = strings.Replace(t, "+axis=wnu", "+axis=wdn", 1)
	}
	return t
}

// an unrelated transformer between two datum-shifted geographic references (built once)
var c10Other proj.Transformer

func runC10Hist(c map[string]interface{}) []Event {
	minimal := (len(arr(c["ops"]))+int(seed()))%2 == 1
	probes := (len(arr(c["ops"]))+int(seed()))%3 == 0 // every third history: failing calls before each recorded call
	var srs []*proj.SR
	var srDef []int
	for _, d := range arr(c["named"]) {
		s, err := proj.Parse(c10Defs[num(d)-1].name)
		if err != nil {
			return []Event{{"ev": "parse", "a": num(d), "out": "err:" + err.Error()}}
		}
		srs = append(srs, s)
		srDef = append(srDef, num(d))
	}
	var tfs []proj.Transformer
	var tfDefs [][2]int
	var evs []Event
	for _, opv := range arr(c["ops"]) {
		op := opv.(map[string]interface{})
		a, b := num(op["a"]), num(op["b"])
		switch str(op["op"]) {
		case "parse":
			e := Event{"ev": "parse", "a": a, "out": "ok"}
			if c10Defs[a-1].name == "" {
				s, err := proj.Parse(c10HistText(a, minimal))
				if err != nil {
					e["out"] = "err:" + err.Error()
				}
				srs = append(srs, s)
				srDef = append(srDef, a)
			}
			evs = append(evs, e)
		case "newt":
			e := Event{"ev": "newt", "a": a, "b": b, "isnil": false, "out": "ok"}
			var t proj.Transformer
			var err error
			out := safely(func() { t, err = srs[a-1].NewTransform(srs[b-1]) })
			if out != "ok" {
				e["out"] = out
			} else if err != nil {
				e["out"] = "err:" + err.Error()
			}
			e["isnil"] = t == nil
			tfs = append(tfs, t)
			tfDefs = append(tfDefs, [2]int{srDef[a-1], srDef[b-1]})
			evs = append(evs, e)
		case "call":
			e := Event{"ev": "call", "t": a, "k": b, "panicked": false}
			px, py, serr := samplePoint(tfDefs[a-1][0], b)
			if serr != nil {
				e["res"] = "nosample:" + serr.Error()
			} else if tfs[a-1] == nil {
				e["res"] = "nil"
			} else {
				var x, y float64
				var err error
				if probes {
					// calls that (mostly) fail - an undefined and an absurd position - come first; whatever they return, the
					// call that follows must still answer as a fresh transformer does
					e["probe"] = safely(func() {
						tfs[a-1](math.NaN(), math.NaN())
						tfs[a-1](1e30, -1e30)
						// ... and a call of an unrelated transformer (another datum, another ellipsoid) with the very
						// coordinates the recorded call is about to get
						if c10Other == nil {
							o1, _ := proj.Parse("+proj=longlat +ellps=bessel +towgs84=570.8,85.7,462.8 +no_defs")
							o2, _ := proj.Parse("+proj=longlat +datum=WGS84 +no_defs") // (no intermediate hop: one conversion on the other datum)
							if o1 != nil && o2 != nil {
								c10Other, _ = o1.NewTransform(o2)
							}
						}
						if c10Other != nil {
							c10Other(px, py)
						}
					})
				}
				out := safely(func() { x, y, err = tfs[a-1](px, py) })
				e["res"] = internXY(x, y, err, out)
				e["panicked"] = out != "ok"
			}
			evs = append(evs, e)
		}
	}
	return evs
}

var errFake = errors.New("fake")

func runC10Transform(c map[string]interface{}) []Event {
	g := decGeom(c["g"], codeDec)
	before := encGeom(g, codeEnc)
	failat := num(c["failat"])
	nilt, _ := c["nilt"].(bool)
	calls := []interface{}{}
	n := 0
	var t proj.Transformer
	if !nilt {
		t = func(x, y float64) (float64, float64, error) {
			n++
			calls = append(calls, []interface{}{floatToCode(x), floatToCode(y)})
			if n == failat {
				return math.NaN(), math.NaN(), errFake
			}
			return y, -x, nil
		}
	}
	e := Event{"ev": "transform", "res": map[string]interface{}{"t": "nil", "m": []interface{}{}}}
	var r geom.Geom
	var err error
	out := safely(func() { r, err = g.Transform(t) })
	switch {
	case out != "ok":
		e["out"] = out
	case err != nil:
		e["out"] = "err:" + err.Error()
	default:
		e["out"] = "ok"
		e["res"] = encGeom(r, codeEnc)
	}
	e["calls"] = calls
	e["inputsame"] = reflect.DeepEqual(before, encGeom(g, codeEnc))
	return []Event{e}
}

func runC10(c map[string]interface{}) []Event {
	if str(c["kind"]) == "transform" {
		return runC10Transform(c)
	}
	return runC10Hist(c)
}

// attach the fresh table and kind to a history case (the harness computes `fresh`, TLC only compares)
func c10Finish(c map[string]interface{}) map[string]interface{} {
	if str(c["kind"]) == "transform" {
		return c
	}
	c["kind"] = "hist"
	var fresh []interface{}
	nd := len(c10Defs)
	for s := 1; s <= nd; s++ {
		for d := 1; d <= nd; d++ {
			if s == d {
				continue
			}
			var rs []interface{}
			for k := 1; k <= len(c10Pos); k++ {
				rs = append(rs, freshAnswer(s, d, k))
			}
			fresh = append(fresh, []interface{}{s, d, rs})
		}
	}
	c["fresh"] = fresh
	return c
}

// long random interleavings over many transformers sharing references
func randomC10(rng *rand.Rand, n int) []map[string]interface{} {
	out := make([]map[string]interface{}, n)
	for i := range out {
		var ops []interface{}
		nsr := 2
		srdef := []int{1, 2}
		ntf := 0
		add := func(op string, a, b int) { ops = append(ops, map[string]interface{}{"op": op, "a": a, "b": b}) }
		for len(ops) < 40+rng.Intn(120) {
			switch x := rng.Intn(10); {
			case x == 0 || nsr < 4:
				d := 3 + rng.Intn(len(c10Defs)-2)
				add("parse", d, 0)
				nsr++
				srdef = append(srdef, d)
			case x == 1 || ntf < 3:
				a, b := 1+rng.Intn(nsr), 1+rng.Intn(nsr)
				if srdef[a-1] != srdef[b-1] {
					add("newt", a, b)
					ntf++
				}
			default:
				add("call", 1+rng.Intn(ntf), 1+rng.Intn(len(c10Pos)))
			}
		}
		out[i] = c10Finish(map[string]interface{}{"kind": "hist", "named": []interface{}{1, 2}, "ops": ops})
	}
	return out
}

package main

import (
	"encoding/json"
	"math/rand"

	"github.com/ctessum/geom"
	"github.com/ctessum/geom/index/rtree"
)

// C11/C12: insert/delete histories on a real rtree.Rtree; after each call the
// structure snapshot (verif hook), Size, Depth and query answers are recorded.
//
// case: {"minc","maxc","boxes":[[x1,y1,x2,y2],...],"ops":[{"op":"ins"|"del","o":id},...],
//        "fullfrom": first op index (1-based) recorded in full (default 1), "fullevery": n (default 1)}
func init() {
	families["c11"] = &Family{Run: runC11, Random: randomC11, Sandbox: true, DeadlineMS: 20000}
}

type rtObj struct {
	g   geom.Geom
	box [4]int
}

func mkPool(boxes []interface{}) ([]rtObj, map[geom.Geom]int) {
	pool := make([]rtObj, len(boxes))
	ids := map[geom.Geom]int{}
	for i, b := range boxes {
		a := arr(b)
		bx := [4]int{num(a[0]), num(a[1]), num(a[2]), num(a[3])}
		var g geom.Geom
		pt := geom.Point{X: float64(bx[0]), Y: float64(bx[1])}
		_, dup := ids[pt]
		if bx[0] == bx[2] && bx[1] == bx[3] && !dup && i%2 == 1 {
			g = pt // a comparable value object: identity is the value
		} else {
			g = &geom.Bounds{Min: geom.Point{X: float64(bx[0]), Y: float64(bx[1])}, Max: geom.Point{X: float64(bx[2]), Y: float64(bx[3])}}
		}
		pool[i] = rtObj{g: g, box: bx}
		ids[g] = i + 1
	}
	return pool, ids
}

func idOf(ids map[geom.Geom]int, g geom.Geom) (id int) {
	if g == nil {
		return 0
	}
	defer func() {
		if recover() != nil { // unhashable dynamic type
			id = -1
		}
	}()
	if v, ok := ids[g]; ok {
		return v
	}
	return -1
}

func snapNode(n *rtree.VerifNode, ids map[geom.Geom]int, pbad *int) interface{} {
	if n == nil {
		return map[string]interface{}{"nil": true}
	}
	*pbad += n.BadParent
	es := make([]interface{}, len(n.Entries))
	for i, e := range n.Entries {
		var bb []interface{}
		if e.BB != nil {
			bb = []interface{}{floatToNum(e.BB.Min.X), floatToNum(e.BB.Min.Y), floatToNum(e.BB.Max.X), floatToNum(e.BB.Max.Y)}
		} else {
			bb = []interface{}{}
		}
		es[i] = map[string]interface{}{"bb": bb, "ch": snapNode(e.Child, ids, pbad), "obj": idOf(ids, e.Obj)}
	}
	return map[string]interface{}{"leaf": n.Leaf, "level": n.Level, "es": es}
}

func idsOf(ids map[geom.Geom]int, gs []geom.Geom) []interface{} {
	out := make([]interface{}, len(gs))
	for i, g := range gs {
		out[i] = idOf(ids, g)
	}
	return out
}

// query sets derived from the pool: whole extent, far away, degenerate and touching ones
func rtQueries(pool []rtObj, rng *rand.Rand) (qs [][4]int, pts [][2]int) {
	minx, miny, maxx, maxy := 1<<30, 1<<30, -(1 << 30), -(1 << 30)
	for _, o := range pool {
		if o.box[0] < minx {
			minx = o.box[0]
		}
		if o.box[1] < miny {
			miny = o.box[1]
		}
		if o.box[2] > maxx {
			maxx = o.box[2]
		}
		if o.box[3] > maxy {
			maxy = o.box[3]
		}
	}
	qs = append(qs, [4]int{minx, miny, maxx, maxy}, [4]int{maxx + 1, maxy + 1, maxx + 2, maxy + 2})
	a, b := pool[rng.Intn(len(pool))].box, pool[rng.Intn(len(pool))].box
	qs = append(qs,
		[4]int{a[2], a[3], a[2], a[3]},                 // degenerate: a's max corner
		[4]int{a[2], a[1], a[2] + 1, a[3]},             // touching a's right side
		[4]int{b[0] - 1, b[1] - 1, b[0], b[1]},         // touching b's min corner
		[4]int{(minx + maxx) / 2, miny, (minx+maxx)/2 + 1, maxy}) // a vertical strip
	pts = append(pts, [2]int{minx - 1, miny - 1}, [2]int{(minx + maxx) / 2, (miny + maxy) / 2},
		[2]int{a[2], a[1]}, [2]int{b[0], b[3] + 2}, [2]int{maxx + 3, (miny + maxy) / 2})
	return
}

func runC11(c map[string]interface{}) []Event {
	minc, maxc := num(c["minc"]), num(c["maxc"])
	pool, ids := mkPool(arr(c["boxes"]))
	fullFrom, fullEvery := 1, 1
	if v, ok := c["fullfrom"]; ok {
		fullFrom = num(v)
	}
	if v, ok := c["fullevery"]; ok {
		fullEvery = num(v)
	}
	rng := rand.New(rand.NewSource(int64(len(pool))*7919 + int64(minc*31+maxc)))
	qs, pts := rtQueries(pool, rng)
	tree := rtree.NewTree(minc, maxc)
	var evs []Event
	prevSnap := ""
	dead := false
	fullCount := 0
	ops := arr(c["ops"])
	for k, opv := range ops {
		op := opv.(map[string]interface{})
		o := num(op["o"])
		e := Event{"ev": "op", "op": str(op["op"]), "o": o, "ret": false, "size": -1, "full": false}
		if dead {
			e["out"] = "skipped after panic"
			evs = append(evs, e)
			continue
		}
		full := k+1 >= fullFrom && ((k+1-fullFrom)%fullEvery == 0 || k == len(ops)-1)
		e["out"] = safely(func() {
			if str(op["op"]) == "ins" {
				tree.Insert(pool[o-1].g)
			} else {
				e["ret"] = tree.Delete(pool[o-1].g)
			}
			e["size"] = tree.Size()
		})
		if e["out"] != "ok" {
			dead = true
			evs = append(evs, e)
			continue
		}
		// the snapshot is needed for `same` whenever the next event may be full
		var snapJSON string
		var snap interface{}
		var rootNode *rtree.VerifNode
		pbad := 0
		if full || (k+2 >= fullFrom) {
			out := safely(func() {
				root, _, _ := tree.VerifSnapshot(64)
				rootNode = root
				snap = snapNode(root, ids, &pbad)
				b, _ := json.Marshal(snap)
				snapJSON = string(b)
			})
			if out != "ok" {
				e["out"] = "snapshot " + out
			}
		}
		if full {
			e["full"] = true
			e["depth"] = tree.Depth()
			e["tree"] = snap
			e["pbad"] = pbad
			e["same"] = prevSnap != "" && prevSnap == snapJSON
			if k == 0 {
				e["same"] = snapJSON == `{"es":[],"leaf":true,"level":1}`
			}
			var ss, nns, knns []interface{}
			for _, q := range qs {
				bq := &geom.Bounds{Min: geom.Point{X: float64(q[0]), Y: float64(q[1])}, Max: geom.Point{X: float64(q[2]), Y: float64(q[3])}}
				var r []geom.Geom
				out := safely(func() { r = tree.SearchIntersect(bq) })
				if out != "ok" {
					e["out"] = "search " + out
				}
				ss = append(ss, map[string]interface{}{"q": []interface{}{q[0], q[1], q[2], q[3]}, "r": idsOf(ids, r)})
			}
			sz := tree.Size()
			// in trees of three or more levels: extra nearest-neighbour queries just outside the faces of the boxes of the
			// upper levels, where branch pruning by box distances decides the answer
			if sz > 0 && tree.Depth() >= 3 && rootNode != nil {
				var upper []*geom.Bounds
				for _, en := range rootNode.Entries {
					if en.BB != nil {
						upper = append(upper, en.BB)
					}
					if en.Child != nil && !en.Child.Leaf {
						for _, e2 := range en.Child.Entries {
							if e2.BB != nil {
								upper = append(upper, e2.BB)
							}
						}
					}
				}
				seen := map[[2]int]bool{}
				// after a delete, a coarse grid over the whole extent as well (stale boxes left behind by the condense pass
				// mislead the pruning only from particular directions)
				if str(op["op"]) == "del" && len(upper) > 0 {
					lox, loy, hix, hiy := int(upper[0].Min.X), int(upper[0].Min.Y), int(upper[0].Max.X), int(upper[0].Max.Y)
					for _, b := range upper {
						lox, loy = minI(lox, int(b.Min.X)), minI(loy, int(b.Min.Y))
						hix, hiy = maxI(hix, int(b.Max.X)), maxI(hiy, int(b.Max.Y))
					}
					const gridN = 9
					for gx := 0; gx <= gridN; gx++ {
						for gy := 0; gy <= gridN; gy++ {
							p := [2]int{lox - 3 + gx*(hix-lox+6)/gridN, loy - 3 + gy*(hiy-loy+6)/gridN}
							if seen[p] {
								continue
							}
							seen[p] = true
							gp := geom.Point{X: float64(p[0]), Y: float64(p[1])}
							var r geom.Geom
							out := safely(func() { r = tree.NearestNeighbor(gp) })
							nns = append(nns, map[string]interface{}{"p": []interface{}{p[0], p[1]}, "r": idOf(ids, r), "out": out})
						}
					}
				}
				for _, b := range upper {
					x1, y1, x2, y2 := int(b.Min.X), int(b.Min.Y), int(b.Max.X), int(b.Max.Y)
					mx, my := (x1+x2)/2, (y1+y2)/2
					for _, p := range [][2]int{{x1 - 2, my}, {x2 + 2, my}, {mx, y1 - 2}, {mx, y2 + 2}, {x1 - 3, y2 + 1}, {x2 + 1, y1 - 3}} {
						if seen[p] || len(seen) >= 140 {
							continue
						}
						seen[p] = true
						gp := geom.Point{X: float64(p[0]), Y: float64(p[1])}
						var r geom.Geom
						out := safely(func() { r = tree.NearestNeighbor(gp) })
						nns = append(nns, map[string]interface{}{"p": []interface{}{p[0], p[1]}, "r": idOf(ids, r), "out": out})
					}
				}
			}
			// the fixed query points are asked in alternating order, so that the first question after an operation is the last
			// question before it (asking the same thing again after a delete is what a caller snapping to features does)
			fullCount++
			ordered := pts
			if fullCount%2 == 0 {
				ordered = make([][2]int, len(pts))
				for i := range pts {
					ordered[i] = pts[len(pts)-1-i]
				}
			}
			for _, p := range ordered {
				gp := geom.Point{X: float64(p[0]), Y: float64(p[1])}
				if sz > 0 {
					var r geom.Geom
					out := safely(func() { r = tree.NearestNeighbor(gp) })
					nns = append(nns, map[string]interface{}{"p": []interface{}{p[0], p[1]}, "r": idOf(ids, r), "out": out})
				}
				for _, kk := range []int{1, 2, 3, sz, sz + 2} {
					if kk < 1 || (kk > 3 && kk > 12) {
						continue
					}
					var r []geom.Geom
					out := safely(func() { r = tree.NearestNeighbors(kk, gp) })
					knns = append(knns, map[string]interface{}{"p": []interface{}{p[0], p[1]}, "k": kk, "r": idsOf(ids, r), "out": out})
				}
			}
			if ss == nil {
				ss = []interface{}{}
			}
			if nns == nil {
				nns = []interface{}{}
			}
			if knns == nil {
				knns = []interface{}{}
			}
			e["search"], e["nn"], e["knn"] = ss, nns, knns
		}
		prevSnap = snapJSON
		evs = append(evs, e)
	}
	return evs
}

// seeded random long histories on bigger pools: fill / churn / drain completely / refill
func randomC11(rng *rand.Rand, n int) []map[string]interface{} {
	// small fan-outs come up more often: only they reach three levels with pools of this size
	cfgs := [][2]int{{2, 4}, {2, 5}, {2, 4}, {3, 6}, {2, 5}, {3, 7}, {2, 4}, {2, 9}, {2, 5}, {4, 8}}
	out := make([]map[string]interface{}, n)
	for i := range out {
		cf := cfgs[i%len(cfgs)]
		np := 8 + rng.Intn(28)
		span := 20 + rng.Intn(200)
		boxes := make([]interface{}, np)
		// every third history uses a degenerate pool, where the split heuristics tie: points on one axis-parallel line,
		// unit squares on a coarse symmetric grid, or three boxes repeated many times
		style := 0
		if i%3 == 2 {
			style = 1 + (i/3)%3
		}
		for j := range boxes {
			x, y := rng.Intn(span), rng.Intn(span)
			w, h := rng.Intn(span/4+1), rng.Intn(span/4+1)
			if style == 1 {
				boxes[j] = []interface{}{x, 7, x, 7}
				continue
			} else if style == 2 {
				x, y = 4*rng.Intn(4), 4*rng.Intn(4)
				boxes[j] = []interface{}{x, y, x + 1, y + 1}
				continue
			} else if style == 3 {
				k := rng.Intn(3)
				boxes[j] = []interface{}{10 * k, 3 * k, 10*k + 2, 3*k + 2}
				continue
			}
			switch rng.Intn(6) {
			case 0:
				w, h = 0, 0
			case 1:
				if j > 0 { // coincident with an earlier box
					boxes[j] = boxes[rng.Intn(j)]
					continue
				}
			}
			boxes[j] = []interface{}{x, y, x + w, y + h}
		}
		stored := make([]int, np)
		var ops []interface{}
		add := func(op string, o int) { ops = append(ops, map[string]interface{}{"op": op, "o": o}) }
		nops := 60 + rng.Intn(140)
		phase := 0
		for len(ops) < nops {
			o := rng.Intn(np)
			pIns := []float64{0.8, 0.5, 0.15, 0.7}[phase%4]
			tot := 0
			for _, s := range stored {
				tot += s
			}
			if phase%4 == 0 && tot > np*3/4 {
				phase++
			} else if phase%4 == 1 && rng.Intn(25) == 0 {
				phase++
			} else if phase%4 == 2 && tot == 0 {
				phase++
			} else if phase%4 == 3 && tot > np/2 {
				phase++
			}
			if rng.Float64() < pIns {
				if stored[o] < 1 || (o%5 == 0 && stored[o] < 2) {
					stored[o]++
					add("ins", o+1)
				}
			} else {
				if phase%4 == 2 { // drain: prefer stored objects
					for t := 0; t < np && stored[o] == 0; t++ {
						o = (o + 1) % np
					}
				}
				if stored[o] > 0 {
					stored[o]--
				}
				add("del", o+1)
			}
		}
		out[i] = map[string]interface{}{"minc": cf[0], "maxc": cf[1], "boxes": boxes, "ops": ops, "fullevery": 1 + rng.Intn(3)}
	}
	return out
}

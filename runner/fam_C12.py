"""C12 - R-tree nearest-neighbour queries return the true nearest objects (shares the RTree family with C11)."""
import fam_C11

LEVEL = "model_checking"


def run(run):
    fam_C11.run_rtree(run, "C12")


def replay(run, path):
    fam_C11.replay(run, path, focus="C12")

"""X02 - extension family (not one of the listed properties): encoding/osm (*Data).Geom / DominantType / CountTags."""
import json
import os
import vlib

LEVEL = "exploration"
SPEC = ["C18_OSMExtract", "X02_OSMGeom"]


def run(run):
    quick = run.tier == "quick"
    out = run.out
    p = os.path.join(out, "Gen.cfg")
    with open(p, "w") as f:
        f.write("SPECIFICATION GenSpec\nCHECK_DEADLOCK FALSE\nCONSTANTS\n  Thorough = %s\n" % ("FALSE" if quick else "TRUE"))
    cp = os.path.join(out, "cases.ndjson")
    ncases = run.gen("gen", SPEC, "OSMGeomGen", p, cp, workers=1, timeout=3000)
    tr = os.path.join(out, "trace_replay.ndjson")
    run.drive(["x02", "replay", cp, tr], timeout=3000)
    tcfg = os.path.join(out, "Trace.cfg")
    with open(tcfg, "w") as f:
        f.write("SPECIFICATION TraceSpec\nINVARIANT TReport\nCHECK_DEADLOCK FALSE\n")
    fails, lines = run.validate("trace_replay", SPEC, "OSMGeomTrace", tcfg, tr, expected_cases=ncases, timeout=3000)
    for fl in fails:
        block, idx = run.case_block(lines, fl)
        run.report_failure(block, idx, None)
    run.distinct_nontrivial = sum(1 for ln in lines if '"ev":"reset"' in ln and '"r"' in ln)
    run.samples = [json.loads(x) for x in lines[:2]]
    run.bounds = {"tlc_cases": ncases}
    run.rule = "document universes of OSMExtractMC plus closed ways, relation member mixes, nested relations and cycles; all extracted with KeepAll"
    run.assumptions = ["extension family: deviations are observations about encoding/osm's geometry conversion, not violations of a listed property"]


def replay(run, path):
    with open(path) as f:
        rec = json.load(f)
    hd = dict(rec["recording"][0])
    hd.pop("ev", None)
    hd.pop("case", None)
    cp = os.path.join(run.out, "cases.ndjson")
    vlib.write_ndjson(cp, [hd])
    tr = os.path.join(run.out, "trace_replay.ndjson")
    run.drive(["x02", "replay", cp, tr])
    tcfg = os.path.join(run.out, "Trace.cfg")
    with open(tcfg, "w") as f:
        f.write("SPECIFICATION TraceSpec\nINVARIANT TReport\nCHECK_DEADLOCK FALSE\n")
    fails, lines = run.validate("trace_replay", SPEC, "OSMGeomTrace", tcfg, tr, expected_cases=1)
    for fl in fails:
        block, idx = run.case_block(lines, fl)
        run.report_failure(block, idx, None)

"""C19 - ShortestRoute returns a minimum-cost path through the link network."""
import json
import os
import vlib

LEVEL = "model_checking"
SPEC = ["C19_Route"]
ASTAR = "  Nets <- MCNets\n  Opts = {\"distance\", \"time\"}\n"


def classify(block, idx):
    return None


def run(run):
    quick = run.tier == "quick"
    out = run.out
    ml = 3 if quick else 4
    p = os.path.join(out, "MC.cfg")
    with open(p, "w") as f:
        f.write("SPECIFICATION Spec\nCHECK_DEADLOCK FALSE\nCONSTANTS\n  MaxLinks = %d\n" % ml + ASTAR +
                "  UnitWeights = FALSE\n  SlowHeuristic = FALSE\nINVARIANT AStarOptimal\nPROPERTY Terminates\n")
    r = run.tlc("mc_astar", SPEC, "RouteMC", p, workers=12, timeout=3000, extra=["-coverage", "1"] if not quick else None)
    run.coverage_zeros(r)
    # vacuity self-test: with unit link weights (the pre-repair Network) the model must be able to return a non-minimal route
    p = os.path.join(out, "MCbug.cfg")
    with open(p, "w") as f:
        f.write("SPECIFICATION Spec\nCHECK_DEADLOCK FALSE\nCONSTANTS\n  MaxLinks = 3\n" + ASTAR +
                "  UnitWeights = TRUE\n  SlowHeuristic = FALSE\nINVARIANT AStarOptimal\n")
    r = run.tlc("mc_astar_unit_weights", SPEC, "RouteMC", p, workers=12, timeout=3000, expect_violation=True, count=False)
    if not r["violated"]:
        raise vlib.MachineryError("vacuity self-test failed: A* with unit weights does not violate AStarOptimal in the model")
    run.extra["unit_weight_model_violates"] = True
    p = os.path.join(out, "Gen.cfg")
    with open(p, "w") as f:
        f.write("SPECIFICATION GenSpec\nCHECK_DEADLOCK FALSE\nCONSTANTS\n  MG = %d\n  MC = %d\n  Nets = {}\n  Opts = {}\n  UnitWeights = FALSE\n  SlowHeuristic = FALSE\n" % ((12, 3) if quick else (2, 1)))
    cp = os.path.join(out, "cases.ndjson")
    ncases = run.gen("gen", SPEC, "RouteGen", p, cp, workers=1, timeout=3000, require=["route", "twin"])
    tr1 = os.path.join(out, "trace_replay.ndjson")
    run.drive(["c19", "replay", cp, tr1], timeout=3000)
    nrand = 500 if quick else 20000
    tr2 = os.path.join(out, "trace_random.ndjson")
    run.drive(["c19", "random", nrand, tr2], timeout=3000)
    run.bounds = {"astar_max_links": ml, "tlc_cases": ncases, "random": nrand}
    tcfg = os.path.join(out, "Trace.cfg")
    with open(tcfg, "w") as f:
        f.write("SPECIFICATION TraceSpec\nINVARIANT TReport\nCHECK_DEADLOCK FALSE\nCONSTANTS\n  Nets = {}\n  Opts = {}\n  UnitWeights = FALSE\n  SlowHeuristic = FALSE\n")
    ntriv = set()
    for name, tr, exp in (("trace_replay", tr1, ncases), ("trace_random", tr2, nrand)):
        fails, lines = run.validate(name, SPEC, "RouteTrace", tcfg, tr, expected_cases=exp, timeout=3000)
        for fl in fails:
            block, idx = run.case_block(lines, fl)
            run.report_failure(block, idx, classify)
        hd = None
        for ln in lines:
            e = json.loads(ln)
            if e["ev"] == "reset":
                hd = e
            elif e["ev"] == "route" and hd is not None:
                # non-trivial: the returned route has at least two links and the network has more links than the route
                if len(e["route"]) >= 2 and len(hd["links"]) > len(e["route"]):
                    ntriv.add(json.dumps([hd["links"], hd["opt"], hd["from"], hd["to"]]))
        if not run.samples:
            run.samples = [json.loads(x) for x in lines[:4]]
    run.distinct_nontrivial = len(ntriv)
    run.rule = ("TLC enumerates (thinned) link sets of 1-5 links over five lattice positions x extra lengths {0,2,6,40} x speeds {1,2,4} x two "
                "AddLink orders x both options x query-point pairs near nodes; seeded random networks of 6-12 nodes. Non-trivial = the "
                "returned route has >= 2 links and the network has alternatives; distinct = distinct (links, option, query)")
    run.assumptions = ["link geometries are axis-parallel polylines (integer lengths), speeds are powers of two (exact sums); nodes are "
                       "30 apart, so node identification by relative tolerance only merges exactly coincident end points"]


def replay(run, path):
    with open(path) as f:
        rec = json.load(f)
    hd = dict(rec["recording"][0])
    hd.pop("ev", None)
    hd.pop("case", None)
    cp = os.path.join(run.out, "cases.ndjson")
    vlib.write_ndjson(cp, [hd])
    tr = os.path.join(run.out, "trace_replay.ndjson")
    run.drive(["c19", "replay", cp, tr])
    tcfg = os.path.join(run.out, "Trace.cfg")
    with open(tcfg, "w") as f:
        f.write("SPECIFICATION TraceSpec\nINVARIANT TReport\nCHECK_DEADLOCK FALSE\nCONSTANTS\n  Nets = {}\n  Opts = {}\n  UnitWeights = FALSE\n  SlowHeuristic = FALSE\n")
    fails, lines = run.validate("trace_replay", SPEC, "RouteTrace", tcfg, tr, expected_cases=1)
    for fl in fails:
        block, idx = run.case_block(lines, fl)
        run.report_failure(block, idx, classify)
    run.samples = [json.loads(x) for x in lines]
    run.distinct_nontrivial = 2
    run.rule = "replay of one recorded case"

"""X03 - extension family (not one of the listed properties): the +axis / +to_meter stages around the projection kernels in proj's transformation closure."""
import json
import os
import vlib

LEVEL = "exploration"
SPEC = ["X03_Pipeline"]


def run(run):
    quick = run.tier == "quick"
    out = run.out
    mp = os.path.join(out, "MC.cfg")
    with open(mp, "w") as f:
        f.write("SPECIFICATION Spec\nCONSTANTS\n  Axes <- MCAxes\n  Exps <- MCExps\nINVARIANTS KernelCanonical OutputMeaning TypeOK\nCHECK_DEADLOCK FALSE\n")
    r = run.tlc("mc_pipeline", SPEC, "PipelineMC", mp, workers=4, timeout=3000)
    if r["distinct"] < 100000:
        raise vlib.MachineryError("PipelineMC explored only %d states" % r["distinct"])
    p = os.path.join(out, "Gen.cfg")
    with open(p, "w") as f:
        f.write("SPECIFICATION GenSpec\nCHECK_DEADLOCK FALSE\nCONSTANTS\n  Thorough = %s\n" % ("FALSE" if quick else "TRUE"))
    cp = os.path.join(out, "cases.ndjson")
    ncases = run.gen("gen", SPEC, "PipelineGen", p, cp, workers=1, timeout=3000)
    tr = os.path.join(out, "trace_replay.ndjson")
    run.drive(["x03", "replay", cp, tr], timeout=3000)
    tcfg = os.path.join(out, "Trace.cfg")
    with open(tcfg, "w") as f:
        f.write("SPECIFICATION TraceSpec\nINVARIANT TReport\nCHECK_DEADLOCK FALSE\n")
    fails, lines = run.validate("trace_replay", SPEC, "PipelineTrace", tcfg, tr, expected_cases=ncases, timeout=3000)
    for fl in fails:
        block, idx = run.case_block(lines, fl)
        run.report_failure(block, idx, None)
    run.distinct_nontrivial = sum(1 for ln in lines if '"ev":"reset"' in ln and ('"sa":"enu"' not in ln or '"da":"enu"' not in ln or '"se":0' not in ln or '"de":0' not in ln))
    run.samples = [json.loads(x) for x in lines[:2]]
    run.bounds = {"tlc_cases": ncases}
    run.rule = "every combination of source/destination kind (longlat, merc, utm, lcc) x +axis value x +to_meter power of two of the Pipeline model (thinned in the quick tier), three positions each; the model itself is checked exhaustively first (PipelineMC: KernelCanonical, OutputMeaning)"
    run.assumptions = ["extension family: deviations are observations about proj's handling of +axis / +to_meter, not violations of a listed property"]


def replay(run, path):
    with open(path) as f:
        rec = json.load(f)
    hd = dict(rec["recording"][0])
    hd.pop("ev", None)
    hd.pop("case", None)
    cp = os.path.join(run.out, "cases.ndjson")
    vlib.write_ndjson(cp, [hd])
    tr = os.path.join(run.out, "trace_replay.ndjson")
    run.drive(["x03", "replay", cp, tr])
    tcfg = os.path.join(run.out, "Trace.cfg")
    with open(tcfg, "w") as f:
        f.write("SPECIFICATION TraceSpec\nINVARIANT TReport\nCHECK_DEADLOCK FALSE\n")
    fails, lines = run.validate("trace_replay", SPEC, "PipelineTrace", tcfg, tr, expected_cases=1)
    for fl in fails:
        block, idx = run.case_block(lines, fl)
        run.report_failure(block, idx, None)

"""C20 - a CRS means the same whether written as PROJ.4, as OGC WKT or by registered name."""
import json
import os
import vlib

LEVEL = "exploration"
SPEC = ["C20_CRSText"]


def classify(block, idx):
    return None


def run(run):
    quick = run.tier == "quick"
    out = run.out
    consts = "  Styles = {\"esri\", \"ogc\"}\n  Orders = {1, 2, 3}\n  UPos = {\"last\", \"first\"}\n"
    p = os.path.join(out, "MC.cfg")
    with open(p, "w") as f:
        f.write("SPECIFICATION Spec\nCHECK_DEADLOCK FALSE\nCONSTANTS\n" + consts + "  LongCFixup = TRUE\nINVARIANT ClauseMappingOK\n")
    run.tlc("mc_clause_mapping", SPEC, "CRSText", p, workers=4, timeout=3000)
    p = os.path.join(out, "MCbug.cfg")
    with open(p, "w") as f:
        f.write("SPECIFICATION Spec\nCHECK_DEADLOCK FALSE\nCONSTANTS\n" + consts + "  LongCFixup = FALSE\nINVARIANT ClauseMappingOK\n")
    r = run.tlc("mc_without_longc_fixup", SPEC, "CRSText", p, workers=4, timeout=3000, expect_violation=True, count=False)
    if not r["violated"]:
        raise vlib.MachineryError("vacuity self-test failed: the model without the LongC fix-up does not violate ClauseMappingOK")
    run.extra["model_without_fixup_violates"] = True
    p = os.path.join(out, "Gen.cfg")
    with open(p, "w") as f:
        f.write("SPECIFICATION GenSpec\nCHECK_DEADLOCK FALSE\nCONSTANTS\n" + consts + "  LongCFixup = TRUE\n")
    cp = os.path.join(out, "cases0.ndjson")
    run.gen("gen", SPEC, "CRSTextGen", p, cp, workers=1, timeout=3000)
    base = vlib.read_ndjson(cp)
    # each abstract CRS is instantiated with several value draws (seeded); the registry observations come once
    cases = []
    nseeds = 2 if quick else 12
    for c in base:
        for k in range(nseeds):
            d = dict(c)
            d["vseed"] = run.seed * 1000 + k * 37 + (hash(json.dumps(c["crs"], sort_keys=True)) % 1000)
            cases.append(d)
    cases.append({"kind": "registry"})
    cpath = os.path.join(out, "cases.ndjson")
    vlib.write_ndjson(cpath, cases)
    tr1 = os.path.join(out, "trace_replay.ndjson")
    run.drive(["c20", "replay", cpath, tr1], timeout=3000)
    run.bounds = {"abstract_crs": len(base), "value_draws_per_crs": nseeds}
    tcfg = os.path.join(out, "Trace.cfg")
    with open(tcfg, "w") as f:
        f.write("SPECIFICATION TraceSpec\nINVARIANT TReport\nCHECK_DEADLOCK FALSE\nCONSTANTS\n" + consts + "  LongCFixup = TRUE\n")
    fails, lines = run.validate("trace_replay", SPEC, "CRSTextTrace", tcfg, tr1, expected_cases=len(cases), timeout=3000)
    for fl in fails:
        block, idx = run.case_block(lines, fl)
        for b in block:
            b.pop("p4", None) if b.get("ev") == "reset" else None
        run.report_failure(block, idx, classify)
    ntriv = set()
    for ln in lines:
        if '"ev":"reset"' in ln:
            c = json.loads(ln)
            if c.get("kind") == "crs" and (c["crs"]["unit"] != "m" or c["crs"]["tw"] > 0 or c["crs"]["style"] == "ogc"):
                ntriv.add(json.dumps([c["crs"], c.get("vseed")], sort_keys=True))
    run.distinct_nontrivial = len(ntriv)
    run.samples = [json.loads(x) for x in lines[:2]]
    run.rule = ("every abstract CRS (6 projections x 3 linear units x TOWGS84 0/3/7 terms x 2 parameter-naming styles x 3 PARAMETER "
                "orders x linear UNIT clause before or after the parameters) x seeded value draws inside each projection's validity range; registry observations once. Non-trivial = a "
                "non-metre unit, a datum shift or OGC-style centre parameters; distinct = distinct (abstract CRS, value draw)")
    run.assumptions = ["the micrometre comparison is an integer inequality over differences computed by the harness from two runs of the "
                       "real code; TLA+ contributes the clause mapping, the symbolic parser models and the enumeration",
                       "texts without TOWGS84 are compared within one flavour (geographic -> projected), because the port treats an "
                       "unnamed datum (PROJ.4) and an unknown named datum (WKT) differently on purpose"]


def replay(run, path):
    with open(path) as f:
        rec = json.load(f)
    hd = dict(rec["recording"][0])
    hd.pop("ev", None)
    hd.pop("case", None)
    cp = os.path.join(run.out, "cases.ndjson")
    vlib.write_ndjson(cp, [hd])
    tr = os.path.join(run.out, "trace_replay.ndjson")
    run.drive(["c20", "replay", cp, tr])
    consts = "  Styles = {\"esri\", \"ogc\"}\n  Orders = {1, 2, 3}\n  UPos = {\"last\", \"first\"}\n"
    tcfg = os.path.join(run.out, "Trace.cfg")
    with open(tcfg, "w") as f:
        f.write("SPECIFICATION TraceSpec\nINVARIANT TReport\nCHECK_DEADLOCK FALSE\nCONSTANTS\n" + consts + "  LongCFixup = TRUE\n")
    fails, lines = run.validate("trace_replay", SPEC, "CRSTextTrace", tcfg, tr, expected_cases=1)
    for fl in fails:
        block, idx = run.case_block(lines, fl)
        run.report_failure(block, idx, classify)
    run.samples = [json.loads(x) for x in lines]
    run.distinct_nontrivial = 2
    run.rule = "replay of one recorded case"

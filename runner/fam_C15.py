"""C15 - Similar is a symmetric tolerance comparison ignoring only documented reorderings."""
import json
import os
import vlib

LEVEL = "exploration"
SPEC = ["C15_Similar"]


def classify(block, idx):
    return None


def run(run):
    quick = run.tier == "quick"
    out = run.out
    p = os.path.join(out, "MC.cfg")
    with open(p, "w") as f:
        f.write("SPECIFICATION Spec\nINVARIANT R2EqualsR1\nINVARIANT Symmetric\nCHECK_DEADLOCK FALSE\n")
    run.tlc("mc_greedy_equals_bijection", SPEC, "Similar", p, workers=8, timeout=3000)
    p = os.path.join(out, "Gen.cfg")
    with open(p, "w") as f:
        f.write("SPECIFICATION GenSpec\nCHECK_DEADLOCK FALSE\n")
    cp = os.path.join(out, "cases.ndjson")
    ncases = run.gen("gen", SPEC, "SimilarGen", p, cp, workers=1, timeout=3000)
    tr1 = os.path.join(out, "trace_replay.ndjson")
    run.drive(["c15", "replay", cp, tr1], timeout=3000)
    nrand = 400 if quick else 20000
    tr2 = os.path.join(out, "trace_random.ndjson")
    run.drive(["c15", "random", nrand, tr2], timeout=3000)
    run.bounds = {"pairs": ncases, "random": nrand}
    tcfg = os.path.join(out, "Trace.cfg")
    with open(tcfg, "w") as f:
        f.write("SPECIFICATION TraceSpec\nINVARIANT TReport\nCHECK_DEADLOCK FALSE\n")
    ntriv = set()
    for name, tr, exp in (("trace_replay", tr1, ncases), ("trace_random", tr2, nrand)):
        fails, lines = run.validate(name, SPEC, "SimilarTrace", tcfg, tr, expected_cases=exp, timeout=3000)
        for fl in fails:
            block, idx = run.case_block(lines, fl)
            run.report_failure(block, idx, classify)
        for ln in lines:
            if '"ev":"reset"' in ln:
                c = json.loads(ln)
                if json.dumps(c["g"]) != json.dumps(c["h"]):      # non-trivial: h differs from g
                    ntriv.add(json.dumps([c["g"], c["h"]]))
        if not run.samples:
            run.samples = [json.loads(x) for x in lines[20:24]]
    run.distinct_nontrivial = len(ntriv)
    run.rule = ("pairs (g, mu(g)) for 12 base geometries of all eight types (members >= 10 tol apart; boxes whose left-most vertices "
                "tie; closed and unclosed rings) and mutations mu: identity, all member permutations, ring rotations, jitter of every "
                "coordinate by < tol (3 patterns, also after permuting/rotating), one vertex moved by 9 (inside) / 11 / 50 (outside), "
                "member deleted / inserted, line reversed, type changed; seeded random multi-polygons permuted + shortened / extended / "
                "one vertex displaced. Non-trivial = h differs from g")
    run.assumptions = ["integer coordinates, tolerance 10; only mutations for which the property fixes the answer"]


def replay(run, path):
    with open(path) as f:
        rec = json.load(f)
    hd = dict(rec["recording"][0])
    hd.pop("ev", None)
    hd.pop("case", None)
    cp = os.path.join(run.out, "cases.ndjson")
    vlib.write_ndjson(cp, [hd])
    tr = os.path.join(run.out, "trace_replay.ndjson")
    run.drive(["c15", "replay", cp, tr])
    tcfg = os.path.join(run.out, "Trace.cfg")
    with open(tcfg, "w") as f:
        f.write("SPECIFICATION TraceSpec\nINVARIANT TReport\nCHECK_DEADLOCK FALSE\n")
    fails, lines = run.validate("trace_replay", SPEC, "SimilarTrace", tcfg, tr, expected_cases=1)
    for fl in fails:
        block, idx = run.case_block(lines, fl)
        run.report_failure(block, idx, classify)
    run.samples = [json.loads(x) for x in lines]
    run.distinct_nontrivial = 2
    run.rule = "replay of one recorded case"

"""C01 - polygon boolean operations implement point-set semantics."""
import json
import os
import vlib

LEVEL = "exploration"
SPEC = ["C01_PolyOps"]


def bbox(polys):
    xs = [v[0] for p in polys for r in p for v in r]
    ys = [v[1] for p in polys for r in p for v in r]
    if not xs:  # an operand without rings (family F1E): no extent
        return 1, 1, 0, 0
    return min(xs), min(ys), max(xs), max(ys)


def classify(block, idx):
    return None


def run(run):
    quick = run.tier == "quick"
    out = run.out
    k = dict(NA=3, NB=3, MT=20, F2N=4, MF2=40, MP2=700, NBB=4, MTW=12) if quick else dict(NA=3, NB=3, MT=2, F2N=4, MF2=20, MP2=120, NBB=4, MTW=2)
    p = os.path.join(out, "MC.cfg")
    with open(p, "w") as f:
        f.write("SPECIFICATION Spec\nCHECK_DEADLOCK FALSE\nCONSTANTS\n  N = %d\nINVARIANT ShortcutOK\n" % (3 if quick else 4))
    run.tlc("mc_box_shortcut", SPEC, "PolyOpsMC", p, workers=8, timeout=3000)
    p = os.path.join(out, "Gen.cfg")
    with open(p, "w") as f:
        f.write("SPECIFICATION GenSpec\nCHECK_DEADLOCK FALSE\nCONSTANTS\n" + "".join("  %s = %d\n" % kv for kv in k.items()))
    cp = os.path.join(out, "cases.ndjson")
    ncases = run.gen("gen", SPEC, "PolyOpsGen", p, cp, workers=1, timeout=3000, require=["ta=Bounds", "tb=Bounds", "tb=PolygonFlat", "ta=PolygonHoleFirst", "sh=", "f2"])
    tr1 = os.path.join(out, "trace_replay.ndjson")
    run.drive(["c01", "replay", cp, tr1], timeout=3000)
    nrand = 800 if quick else 30000
    tr2 = os.path.join(out, "trace_random.ndjson")
    run.drive(["c01", "random", nrand, tr2], timeout=3000)
    run.bounds = dict(k, random=nrand)
    tcfg = os.path.join(out, "Trace.cfg")
    with open(tcfg, "w") as f:
        f.write("SPECIFICATION TraceSpec\nINVARIANT TReport\nCHECK_DEADLOCK FALSE\n")
    ntriv = set()
    for name, tr, exp in (("trace_replay", tr1, ncases), ("trace_random", tr2, nrand)):
        fails, lines = run.validate(name, SPEC, "PolyOpsTrace", tcfg, tr, expected_cases=exp, timeout=3000)
        for fl in fails:
            block, idx = run.case_block(lines, fl)
            run.report_failure(block, idx, classify)
        for ln in lines:
            if '"ev":"reset"' in ln:
                c = json.loads(ln)
                a, b = bbox(c["A"]), bbox(c["B"])
                overlap = a[0] < b[2] and b[0] < a[2] and a[1] < b[3] and b[1] < a[3]
                # non-trivial: bounding boxes overlap (the clipper's sweep runs), or a non-Polygon type is involved
                if overlap or c["ta"] != "Polygon" or c["tb"] != "Polygon":
                    c.pop("case", None)
                    ntriv.add(json.dumps(c, sort_keys=True))
        if not run.samples:
            run.samples = [json.loads(x) for x in lines[:4]]
    run.distinct_nontrivial = len(ntriv)
    run.rule = ("F1: boxes, holed boxes and pairs of apart boxes on the even lattice x the same on the odd lattice x 4 operations x the "
                "receiver/argument type matrix {Polygon, MultiPolygon, *Bounds}^2 (thinned by MT), every unit cell classified exactly; "
                "F1E: an operand without rings (nil Polygon, empty Polygon, empty MultiPolygon) in either position, all four operations; "
                "F2: valid lattice triangles/quadrilaterals in general position (TLC filter), integer x4 sample points with exact clear "
                "margin; seeded random rectilinear operands in windows up to 28 cells. Non-trivial = bounding boxes overlap or a "
                "non-Polygon operand type; distinct = distinct case")
    run.assumptions = ["operands are lattice polygons; F1 result vertices must be integral and are classified exactly by TLC",
                       "F2 membership of a sample in the *result* is computed by the harness's crossing routine (margin >= 1/4 lattice unit)"]


def replay(run, path):
    with open(path) as f:
        rec = json.load(f)
    hd = dict(rec["recording"][0])
    hd.pop("ev", None)
    hd.pop("case", None)
    cp = os.path.join(run.out, "cases.ndjson")
    vlib.write_ndjson(cp, [hd])
    tr = os.path.join(run.out, "trace_replay.ndjson")
    run.drive(["c01", "replay", cp, tr])
    tcfg = os.path.join(run.out, "Trace.cfg")
    with open(tcfg, "w") as f:
        f.write("SPECIFICATION TraceSpec\nINVARIANT TReport\nCHECK_DEADLOCK FALSE\n")
    fails, lines = run.validate("trace_replay", SPEC, "PolyOpsTrace", tcfg, tr, expected_cases=1)
    for fl in fails:
        block, idx = run.case_block(lines, fl)
        run.report_failure(block, idx, classify)
    run.samples = [json.loads(x) for x in lines]
    run.distinct_nontrivial = 2
    run.rule = "replay of one recorded case"

"""C06 - GeoJSON encoding round-trips every non-empty finite geometry (also serves C17 - WKT - with Focus = "C17")."""
import json
import os
import vlib

LEVEL = "exploration"
SPEC = ["C06_TextCodecs"]


def classify(block, idx):
    return None


def text_pipeline(run, focus):
    quick = run.tier == "quick"
    out = run.out
    mm = 2 if quick else 3
    emp = "TRUE" if focus == "C06" else "FALSE"     # C06 covers empty members after the first, C17 asks for >= 1 vertex per member
    p = os.path.join(out, "MC.cfg")
    with open(p, "w") as f:
        f.write("SPECIFICATION Spec\nCHECK_DEADLOCK FALSE\nCONSTANTS\n  MaxM = %d\n  Empties = %s\nINVARIANT JsonOK\nINVARIANT WktOK\n" % (mm, emp))
    run.tlc("mc_recognisers", SPEC, "TextMC", p, workers=8, timeout=3000)
    p = os.path.join(out, "Gen.cfg")
    with open(p, "w") as f:
        f.write("SPECIFICATION GenSpec\nCHECK_DEADLOCK FALSE\nCONSTANTS\n  MaxM = %d\n  Empties = %s\n" % (3, emp))
    cp = os.path.join(out, "cases.ndjson")
    ncases = run.gen("gen", SPEC, "TextGen", p, cp, workers=1, timeout=3000)
    tr1 = os.path.join(out, "trace_replay.ndjson")
    run.drive(["c06", "replay", cp, tr1], timeout=3000)
    nrand = 1000 if quick else 30000
    tr2 = os.path.join(out, "trace_random.ndjson")
    run.drive(["c06", "random", nrand, tr2], timeout=3000)
    run.bounds = {"MaxM": mm, "tlc_cases": ncases, "random": nrand}
    tcfg = os.path.join(out, "Trace.cfg")
    with open(tcfg, "w") as f:
        f.write("SPECIFICATION TraceSpec\nINVARIANT TReport\nCHECK_DEADLOCK FALSE\nCONSTANTS\n  Focus = \"%s\"\n" % focus)
    ntriv = set()
    for name, tr, exp in (("trace_replay", tr1, ncases), ("trace_random", tr2, nrand)):
        fails, lines = run.validate(name, SPEC, "TextTrace", tcfg, tr, expected_cases=exp, timeout=3000)
        for fl in fails:
            block, idx = run.case_block(lines, fl)
            for b in block:
                b.pop("extra", None)
            run.report_failure(block, idx, classify)
        for ln in lines:
            if '"ev":"reset"' in ln:
                c = json.loads(ln)
                # non-trivial: a multi-member structure (separators between members are exercised)
                if c["g"]["t"] in ("MultiLineString", "Polygon", "MultiPolygon") and len(c["g"]["m"]) >= 2:
                    ntriv.add(json.dumps([c["g"], c.get("extra")]))
        if not run.samples:
            s = [json.loads(x) for x in lines[40:42]]
            run.samples = s
    run.distinct_nontrivial = len(ntriv)
    run.rule = ("TLC enumerates geometries of the supported types with member counts 1-3 (C06: also empty members after a non-empty first one) over ten adversarial finite values (-0, "
                "subnormal, 17-digit, 1e21, 1e-7, max float), unsupported types and non-finite coordinates; seeded random geometries "
                "with random finite bit patterns. Non-trivial = a structure with >= 2 members (hand-assembled separators exercised)")
    run.assumptions = ["the harness lexer (hand-written, math/big decimal->binary rounding) turns the produced text into tokens; "
                       "the grammar and the parse-back are decided by TLC"]


def run(run):
    text_pipeline(run, "C06")


def replay(run, path, focus="C06"):
    with open(path) as f:
        rec = json.load(f)
    hd = dict(rec["recording"][0])
    hd.pop("ev", None)
    hd.pop("case", None)
    cp = os.path.join(run.out, "cases.ndjson")
    vlib.write_ndjson(cp, [hd])
    tr = os.path.join(run.out, "trace_replay.ndjson")
    run.drive(["c06", "replay", cp, tr])
    tcfg = os.path.join(run.out, "Trace.cfg")
    with open(tcfg, "w") as f:
        f.write("SPECIFICATION TraceSpec\nINVARIANT TReport\nCHECK_DEADLOCK FALSE\nCONSTANTS\n  Focus = \"%s\"\n" % focus)
    fails, lines = run.validate("trace_replay", SPEC, "TextTrace", tcfg, tr, expected_cases=1)
    for fl in fails:
        block, idx = run.case_block(lines, fl)
        run.report_failure(block, idx, classify)
    run.samples = [json.loads(x) for x in lines]
    run.distinct_nontrivial = 2
    run.rule = "replay of one recorded case"

"""C10 - reprojection is pointwise, history-independent and structure-preserving."""
import json
import os
import vlib

LEVEL = "model_checking"
SPEC = ["C04_BoundsIter", "C10_ProjState"]

# definition ids of harness table c10Defs: 1 WGS84 (named), 2 EPSG:3857 (named), 3 utm, 4 lcc 3-param, 5 krovak (non-Bessel ellipsoid) 7-param,
# 6 longlat axis=wnu, 7 longlat 3-param
CONSTS = "  NDefs = %d\n  Named = {1, 2}\n  HopDefs = {4, 5, 7}\n  WGSCode = {1, 3, 6}\n  NPts = %d\n"


def pcfg(path, ndefs, npts, maxsr, maxtf, maxcalls, mutates=False, gen=False, emitlen=0):
    with open(path, "w") as f:
        f.write("SPECIFICATION %s\nCHECK_DEADLOCK FALSE\nCONSTANTS\n" % ("GenSpec" if gen else "Spec"))
        f.write(CONSTS % (ndefs, npts))
        f.write("  MaxSR = %d\n  MaxTF = %d\n  MaxCalls = %d\n  MutatesCapture = %s\n" % (maxsr, maxtf, maxcalls, "TRUE" if mutates else "FALSE"))
        if gen:
            f.write("  EmitLen = %d\nINVARIANT Emit\n" % emitlen)
        else:
            f.write("INVARIANT FunctionOK\nINVARIANT CaptureStable\nINVARIANT NoSharedDamage\n")


def classify(block, idx):
    return None


def run(run):
    quick = run.tier == "quick"
    out = run.out
    # ---- R2 |= R1 (and, as a vacuity self-test, the pre-repair closure must violate FunctionOK in the model)
    p = os.path.join(out, "MC.cfg")
    pcfg(p, 8, 2, 4 if quick else 5, 2, 3 if quick else 4)
    r = run.tlc("mc_projstate", SPEC, "ProjState", p, workers=8, timeout=3000,
                extra=["-coverage", "1"] if not quick else None)
    run.coverage_zeros(r)
    p = os.path.join(out, "MCbug.cfg")
    pcfg(p, 8, 2, 4, 2, 3, mutates=True)
    r = run.tlc("mc_projstate_prerepair", SPEC, "ProjState", p, workers=8, timeout=3000, expect_violation=True, count=False)
    if not r["violated"]:
        raise vlib.MachineryError("vacuity self-test failed: the model of the pre-repair closure does not violate FunctionOK/CaptureStable")
    run.extra["prerepair_model_violates"] = True
    # ---- histories: exhaustive short ones + simulated long ones
    hist = []
    p = os.path.join(out, "GenH.cfg")
    pcfg(p, 8, 3, 4, 2, 2 if quick else 3, gen=True)   # (MaxTF 3, MaxCalls 3) was measured at > 54 M histories: never finishes
    hp = os.path.join(out, "hist_bfs.ndjson")
    run.gen("gen_hist_bfs", SPEC, "ProjStateGen", p, hp, workers=4, timeout=3000)
    hist += vlib.read_ndjson(hp)
    cap = 1500 if quick else 40000
    if len(hist) > cap:
        hist = hist[:: len(hist) // cap + 1]
    p = os.path.join(out, "SimH.cfg")
    depth = 25 if quick else 40
    pcfg(p, 8, 3, 7, 6, depth, gen=True, emitlen=depth)
    hp = os.path.join(out, "hist_sim.ndjson")
    run.gen("sim_hist", SPEC, "ProjStateGen", p, hp, workers=1, timeout=3000,
            simulate="num=%d" % (150 if quick else 3000), depth=depth)
    hist += vlib.read_ndjson(hp)
    for h in hist:
        h["kind"] = "hist"
    # ---- Geom.Transform cases
    k = dict(L2=3, L3o=2, L3i=2, LG=1) if quick else dict(L2=4, L3o=2, L3i=2, LG=2)
    p = os.path.join(out, "GenT.cfg")
    with open(p, "w") as f:
        f.write("SPECIFICATION GenSpec\nCHECK_DEADLOCK FALSE\nCONSTANTS\n  L2 = %(L2)d\n  L3o = %(L3o)d\n  L3i = %(L3i)d\n  LG = %(LG)d\n" % k)
    tp = os.path.join(out, "tcases.ndjson")
    run.gen("gen_transform", SPEC, "TransformGen", p, tp, workers=1, timeout=3000)
    tcases = vlib.read_ndjson(tp)
    allcases = hist + tcases
    cpath = os.path.join(out, "cases.ndjson")
    vlib.write_ndjson(cpath, allcases)
    tr1 = os.path.join(out, "trace_replay.ndjson")
    run.drive(["c10", "replay", cpath, tr1], timeout=3000)
    nrand = 40 if quick else 800
    tr2 = os.path.join(out, "trace_random.ndjson")
    run.drive(["c10", "random", nrand, tr2], timeout=3000)
    run.bounds = {"histories": len(hist), "transform_cases": len(tcases), "random_histories": nrand, "geom": k}
    tcfg = os.path.join(out, "Trace.cfg")
    with open(tcfg, "w") as f:
        f.write("SPECIFICATION TraceSpec\nINVARIANT TReport\nCHECK_DEADLOCK FALSE\nCONSTANTS\n" + CONSTS % (8, 3) +
                "  MaxSR = 0\n  MaxTF = 0\n  MaxCalls = 0\n  MutatesCapture = FALSE\n")
    ntriv = set()
    for name, tr, exp in (("trace_replay", tr1, len(allcases)), ("trace_random", tr2, nrand)):
        fails, lines = run.validate(name, SPEC, "ProjStateTrace", tcfg, tr, expected_cases=exp, timeout=3000)
        for fl in fails:
            block, idx = run.case_block(lines, fl)
            for b in block:
                b.pop("fresh", None)
            run.report_failure(block, idx, classify)
        blk = []
        for ln in lines + ['{"ev":"reset"}']:
            if '"ev":"reset"' in ln:
                if blk:
                    hd = blk[0]
                    if hd.get("kind") == "hist":
                        calls = [(e["t"], e["k"]) for e in blk[1:] if e["ev"] == "call"]
                        # non-trivial: some transformer is called at least twice
                        ts = [c[0] for c in calls]
                        if len(ts) != len(set(ts)):
                            ntriv.add(json.dumps(hd.get("ops")))
                    elif hd.get("kind") == "transform":
                        if "[]" in json.dumps(hd["g"]) or hd["failat"] > 0 or hd["g"]["t"] in ("GeometryCollection", "Bounds"):
                            ntriv.add(json.dumps([hd["g"], hd["failat"], hd["nilt"]]))
                blk = []
            blk.append(json.loads(ln))
        if not run.samples:
            s0 = json.loads(lines[0])
            s0.pop("fresh", None)
            run.samples = [s0] + [json.loads(x) for x in lines[1:4]]
    run.distinct_nontrivial = len(ntriv)
    run.rule = ("histories of Parse/NewTransform/Call: every history of the bounded ProjState model ending in a call (TLC BFS), "
                "TLC -simulate walks, seeded random interleavings of 40-160 operations over 7 definitions; Geom.Transform: every "
                "geometry of the BoundsIter universe x every failing position x nil transformer. Non-trivial = a history calling "
                "some transformer at least twice, or a Transform case with an empty member / failing vertex / collection / box; "
                "distinct = distinct operation sequence or (geometry, failat)")
    run.assumptions = ["'fresh' answers are computed by the harness from brand-new references and transformers, called once each",
                       "results are compared as bit patterns (interned strings); no numeric oracle is involved"]


def replay(run, path):
    with open(path) as f:
        rec = json.load(f)
    block = rec["recording"]
    hd = dict(block[0])
    for k in ("ev", "case", "fresh"):
        hd.pop(k, None)
    cpath = os.path.join(run.out, "cases.ndjson")
    vlib.write_ndjson(cpath, [hd])
    tr = os.path.join(run.out, "trace_replay.ndjson")
    run.drive(["c10", "replay", cpath, tr])
    tcfg = os.path.join(run.out, "Trace.cfg")
    with open(tcfg, "w") as f:
        f.write("SPECIFICATION TraceSpec\nINVARIANT TReport\nCHECK_DEADLOCK FALSE\nCONSTANTS\n" + CONSTS % (8, 3) +
                "  MaxSR = 0\n  MaxTF = 0\n  MaxCalls = 0\n  MutatesCapture = FALSE\n")
    fails, lines = run.validate("trace_replay", SPEC, "ProjStateTrace", tcfg, tr, expected_cases=1)
    for fl in fails:
        block, idx = run.case_block(lines, fl)
        for b in block:
            b.pop("fresh", None)
        run.report_failure(block, idx, classify)
    run.samples = [json.loads(x) for x in lines[1:4]]
    run.distinct_nontrivial = 1
    run.rule = "replay of one recorded case"

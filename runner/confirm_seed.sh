#!/bin/bash
# confirm_seed.sh <worktree> <outdir> <pkg-subdir> <name>
# Confirms a seeded change: existing tests pass with it, the demonstration fails with it and passes without it;
# then stores it under /verif/seeded/<name>/ and reverts the worktree.
set -u
WT=$1; OUT=$2; PKG=$3; NAME=$4
export GOFLAGS=-mod=mod GOPROXY=off GOSUMDB=off GOTOOLCHAIN=local
cd "$WT" || exit 2
git checkout -q -- . ; git apply "$OUT/patch.diff" || { echo "patch does not apply"; exit 2; }
go build ./$PKG/ || { echo "does not compile"; exit 1; }
echo "== existing tests with the change (package $PKG)"
go test -vet=off -count=1 ./$PKG/ 2>&1 | tail -2; ET=${PIPESTATUS[0]}
cp "$OUT/demo_test.go" "$WT/$PKG/zz_demo_test.go"
echo "== demo with the change (must FAIL)"
go test -vet=off -count=1 -run 'Demo|demo|Seed|C[0-9][0-9]' ./$PKG/ 2>&1 | tail -3; WITH=${PIPESTATUS[0]}
# (no git stash: the stash is shared by all worktrees of a repository)
git apply -R "$OUT/patch.diff" || { echo "cannot revert patch"; exit 2; }
cp "$OUT/demo_test.go" "$WT/$PKG/zz_demo_test.go"
echo "== demo without the change (must PASS)"
go test -vet=off -count=1 -run 'Demo|demo|Seed|C[0-9][0-9]' ./$PKG/ 2>&1 | tail -3; WITHOUT=${PIPESTATUS[0]}
rm -f "$WT/$PKG/zz_demo_test.go"
git apply "$OUT/patch.diff"
echo "existing=$ET with=$WITH without=$WITHOUT"
if [ "$ET" = 0 ] && [ "$WITH" != 0 ] && [ "$WITHOUT" = 0 ]; then
  mkdir -p /verif/seeded/$NAME && cp "$OUT/patch.diff" "$OUT/demo_test.go" "$OUT/meta.json" /verif/seeded/$NAME/ && echo "CONFIRMED -> /verif/seeded/$NAME"
else
  echo "NOT CONFIRMED"; exit 1
fi

#!/usr/bin/env python3
"""Validate MANIFEST.json and every evidence file against the schemas (uses the tooling venv's jsonschema)."""
import glob
import json
import sys
import jsonschema

ok = True
try:
    jsonschema.validate(json.load(open('/verif/MANIFEST.json')), json.load(open('/root/.vp/MANIFEST.schema.json')))
    print("MANIFEST.json valid")
except Exception as e:
    ok = False
    print("MANIFEST invalid:", e)
es = json.load(open('/root/.vp/EVIDENCE.schema.json'))
for f in sorted(glob.glob('/verif/evidence/*.json')):
    try:
        jsonschema.validate(json.load(open(f)), es)
        print(f, "valid")
    except Exception as e:
        ok = False
        print(f, "INVALID:", str(e)[:300])
sys.exit(0 if ok else 1)

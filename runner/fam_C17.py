"""C17 - WKT output is well-formed OGC text that parses back to the same geometry (shares the TextCodecs family)."""
import fam_C06

LEVEL = "exploration"


def run(run):
    fam_C06.text_pipeline(run, "C17")


def replay(run, path):
    fam_C06.replay(run, path, focus="C17")

"""C04 - Bounds are tight envelopes and vertex enumeration is complete and ordered."""
import json
import os
import vlib

LEVEL = "model_checking"
SPEC = ["C04_BoundsIter"]


def consts(tier):
    if tier == "quick":
        return dict(L2=4, L3o=2, L3i=2, LG=2, TripleCoords="{}", InfThin=5)
    return dict(L2=4, L3o=3, L3i=2, LG=3, TripleCoords="{0, 1, 2}", InfThin=1)


def write_cfgs(run, k):
    base = "CONSTANTS\n  L2 = %(L2)s\n  L3o = %(L3o)s\n  L3i = %(L3i)s\n  LG = %(LG)s\n" % k
    d = os.path.join(vlib.VERIF, "spec", SPEC[0])
    with open(os.path.join(run.out, "MC.cfg"), "w") as f:
        f.write("SPECIFICATION Spec\nINVARIANT IterOK\nCHECK_DEADLOCK FALSE\n" + base)
    with open(os.path.join(run.out, "Gen.cfg"), "w") as f:
        f.write("SPECIFICATION GenSpec\nCHECK_DEADLOCK FALSE\n" + base + "  TripleCoords = %s\n  InfThin = %d\n" % (k["TripleCoords"], k["InfThin"]))


def has_empty_run(g):
    """non-trivial: an empty member somewhere, or a special coordinate"""
    s = json.dumps(g)
    return "[]" in s or "7777" in s or "1000" in s


def classify(block, idx):
    return None


def run(run):
    k = consts(run.tier)
    run.bounds = dict(k)
    write_cfgs(run, k)
    mc = run.tlc("mc", SPEC, "BoundsIter", os.path.join(run.out, "MC.cfg"), workers=8,
                 extra=["-coverage", "1"] if run.tier == "thorough" else None)
    run.coverage_zeros(mc)
    cases = os.path.join(run.out, "cases.ndjson")
    ncases = run.gen("gen", SPEC, "BoundsIterGen", os.path.join(run.out, "Gen.cfg"), cases)
    tr1 = os.path.join(run.out, "trace_replay.ndjson")
    run.drive(["c04", "replay", cases, tr1])
    nrand = 300 if run.tier == "quick" else 5000
    tr2 = os.path.join(run.out, "trace_random.ndjson")
    run.drive(["c04", "random", nrand, tr2])
    tcfg = os.path.join(vlib.VERIF, "spec", SPEC[0], "Trace.cfg")
    distinct = set()
    for name, tr, exp in (("trace_replay", tr1, ncases), ("trace_random", tr2, nrand)):
        fails, lines = run.validate(name, SPEC, "BoundsIterTrace", tcfg, tr, expected_cases=exp)
        for ln in lines:
            if '"ev":"reset"' in ln:
                c = json.loads(ln)
                c.pop("case", None)
                if c["kind"] != "geom" or has_empty_run(c["g"]):
                    distinct.add(json.dumps(c, sort_keys=True))
        for fl in fails:
            block, idx = run.case_block(lines, fl)
            run.report_failure(block, idx, classify)
        if not run.samples:
            run.samples = [json.loads(x) for x in lines[:2]] + [json.loads(x) for x in lines[-4:]]
    run.distinct_nontrivial = len(distinct)
    run.rule = ("cases are enumerated by TLC from BoundsIter!GeomCases (every member-length vector in {0,1,2}^<=L for the "
                "nested types, collections over a 15-entry catalogue, 3 coordinate patterns over {-Inf,-2,-0,0,1,+Inf}) and all "
                "pairs (thorough: triples) of well-formed boxes, plus seeded random deep collections; a case counts as "
                "non-trivial if it is a box case or a geometry with an empty member or a -0/infinite coordinate; "
                "distinct = distinct case JSON")
    run.assumptions = ["coordinates are small integers, -0 and the infinities (exact in float64)",
                       "box operands are the canonical empty box or have min <= max on both axes"]


def replay(run, path):
    with open(path) as f:
        rec = json.load(f)
    block = rec["recording"]
    case = dict(block[0])
    case.pop("ev", None)
    case.pop("case", None)
    cases = os.path.join(run.out, "cases.ndjson")
    vlib.write_ndjson(cases, [case])
    tr = os.path.join(run.out, "trace_replay.ndjson")
    run.drive(["c04", "replay", cases, tr])
    tcfg = os.path.join(vlib.VERIF, "spec", SPEC[0], "Trace.cfg")
    fails, lines = run.validate("trace_replay", SPEC, "BoundsIterTrace", tcfg, tr, expected_cases=1)
    for fl in fails:
        block, idx = run.case_block(lines, fl)
        run.report_failure(block, idx, classify)
    run.samples = [json.loads(x) for x in lines]
    run.distinct_nontrivial = 1
    run.rule = "replay of one recorded case"

#!/usr/bin/env python3
"""Regenerates /verif/MANIFEST.json from the table below (single source of truth)."""
import json
import os

VERIF = os.path.dirname(os.path.dirname(os.path.abspath(__file__)))

ALL = ["C%02d" % i for i in range(1, 21)]

CHECKS = {
    "C04": dict(
        level="model_checking",
        text="TLC checks the iterator state machines (R2) against Flatten (R1) for every member-length vector in the bounded "
             "universe; the same universe, all box pairs/triples and seeded random deep collections are replayed on the real "
             "code and every recording is validated by TLC against the R1 oracle (BoundsIterTrace.tla).",
        design_ref="DESIGN.md section 5, C04",
        note="Trusted: TLC, the Go harness's float<->integer coding (exact for small integers, -0, +-Inf), the R1 definitions "
             "in BoundsIter.tla. Coordinates are small integers/-0/infinities; box operands are canonical-empty or min<=max.",
        technique="TLA+ iterator state machines + R1 oracle model-checked with TLC; TLC-enumerated cases replayed on the code; "
                  "recorded traces validated by TLC (trace spec)"),
}

CHECKS["C11"] = dict(
    level="model_checking",
    text="RTree.tla is an exact integer replica (R2) of rtree.go's insert/split/adjust and delete/condense/re-insert/collapse over "
         "nested tree values; TLC checks it exhaustively against the bag-semantics oracle (R1: size, leaf multiset, balance, exact "
         "envelopes, fan-out, search = scan, failed delete is a no-op) for bounded object pools. TLC then emits a cover of every "
         "(operation, resulting state) pair plus simulation walks; the Go harness replays them and seeded random "
         "fill/churn/drain/refill histories on real trees, recording after every call the structure snapshot (verif hook), Size, "
         "Depth and SearchIntersect answers; RTreeTrace.tla validates each recorded step against R1 and measures conformance to R2.",
    design_ref="DESIGN.md section 5, C11",
    note="Trusted: TLC, the read-only VerifSnapshot hook, the harness's object-identity mapping. Objects are *Bounds pointers and "
         "Point values with integer coordinates; (MinC,MaxC) in {(2,4),(2,5),(3,6),(3,7),(2,9),(4,8)}; exhaustive only for pools of 5-9 objects.",
    technique="TLA+ executable replica of the R-tree model-checked with TLC against a bag oracle; TLC behaviours replayed on the code; "
              "per-step trace validation of recorded executions with TLC")
CHECKS["C12"] = dict(
    level="model_checking",
    text="Same RTree family: the R2 replica includes the MINDIST-ordered / MINMAXDIST-pruned nearest-neighbour searches in integer "
         "squared distances and TLC checks NearestOK/KNearestOK in every reachable state of the bounded pools; on every replayed and "
         "random history the harness queries NearestNeighbor and NearestNeighbors(k) (k in {1,2,3,size,size+2}) at five points after "
         "each call and RTreeTrace.tla (Focus = C12) compares the answers with the k smallest box distances of the bag.",
    design_ref="DESIGN.md section 5, C12",
    note="Trusted: as C11. Distances are compared as exact integer squares (sqrt is monotone); ties are compared by distance only.",
    technique="TLA+ model of the NN search checked by TLC; recorded NN answers of the real code validated by TLC against the bag oracle")

CHECKS["C18"] = dict(
    level="model_checking",
    text="OSMExtract.tla models extract() at the granularity of its lock-delimited steps (hasNeedX reads, map writes, the "
         "needAnotherPass flag, pass loop) for W workers; TLC checks for every interleaving of every document in the bounded "
         "universe that the result is exactly Least(doc, keep) (R1), never more than it at any time, passes Check, and that "
         "extraction terminates (liveness under weak fairness). TLC schedules (breadth-first prefixes to every distinct state, "
         "simulated complete schedules) are replayed on the real worker goroutines, parked at verif yield points placed outside "
         "every lock and released one step at a time; each recorded step is validated as an action of the model and each result "
         "against Least; the same and larger random documents are also run freely under GOMAXPROCS 1/2/4/16. Filter is checked "
         "for idempotence, closure and inclusion on every result.",
    design_ref="DESIGN.md section 5, C18",
    note="Trusted: TLC, the yield/record hooks (add-only, build tag verif), the XML rendering of documents. Schedules are explored "
         "at hook-point granularity; exhaustive only for documents of <= 6 objects and W <= 3; XML input only (no PBF writer offline).",
    technique="TLA+ model of the worker pool checked by TLC (safety + liveness); TLC schedules replayed on real goroutines via gate hooks; "
              "recorded steps and results validated by TLC against the model and the least-closure oracle")

CHECKS["C10"] = dict(
    level="model_checking",
    text="ProjState.tla models the heap behind transformers (SR objects with lazily written defaults, the registry's shared pointers, "
         "closures with their captured source variable) and TLC checks FunctionOK / CaptureStable / NoSharedDamage for every bounded "
         "history of Parse / NewTransform / Call (and, as a vacuity self-test, that the pre-repair closure violates them). Every such "
         "history, TLC simulation walks and seeded random interleavings are executed on the real proj package and ProjStateTrace.tla "
         "requires each call to return bit-for-bit what a brand-new transformer returns, without panicking. Transform.tla gives "
         "TransformSpec for Geom.Transform; TLC enumerates every geometry of the BoundsIter universe x failing position x nil "
         "transformer and the recorded result tree, call sequence, error and input immutability are validated against it.",
    design_ref="DESIGN.md section 5, C10",
    note="Trusted: TLC, the harness's bit-pattern interning, 'fresh' answers computed by the harness from brand-new references. Seven "
         "definitions (two registry names, utm, lcc 3-param, tmerc 7-param, longlat axis=wnu, longlat 3-param), three positions. No "
         "numeric oracle: only function-ness and structure are decided.",
    technique="TLA+ heap/closure model checked by TLC; TLC histories replayed on the real package; recorded calls validated by TLC "
              "against fresh-transformer answers; TLC-enumerated Geom.Transform cases validated against TransformSpec")

CHECKS["C13"] = dict(
    level="model_checking",
    text="Simplify.tla transcribes simplifyCurve as a state machine (one action per loop iteration, the code's i/j/k/out, the back-off of "
         "candidate and closing chords, findIntersection and segMakesNotSimple in exact integer arithmetic); TLC checks termination "
         "(liveness under weak fairness), bounded output, subsequence/endpoints/tolerance and preservation of simplicity for every "
         "curve of the bounded lattice. "
         "TLC-enumerated curves, rings and multi-line strings plus seeded random simple walks are run through the real Simplify in a "
         "sandbox child (hang / runaway allocation become outcomes) and SimplifyTrace.tla validates each result against R1 "
         "(termination, order-preserving subsequence, endpoints, exact rational distance <= tol, simplicity preserved, input "
         "untouched, members independent); inputs are also presented at magnitudes 2^-10 .. 2^30 (exact scaling). Conformance of the "
         "code to the transcription (the R2 machine run to completion inside TLC) is measured as drift and is 0.",
    design_ref="DESIGN.md section 5, C13",
    note="Trusted: TLC, the sandbox deadline (4 s, re-confirmed alone with 8 s). Integer lattice inputs <= 100; squared tolerances 0 or "
         "= 3 mod 4 (no exact distance tie). The former known finding (simplicity) is repaired (59c3263, 66548b8); nothing is suppressed.",
    technique="TLA+ transcription of the simplifier model-checked by TLC (safety + termination); TLC-enumerated and random cases run on "
              "the code in a sandbox; results validated by TLC against the exact-rational oracle")

CHECKS["C05"] = dict(
    level="exploration",
    text="WKB.tla is a byte-level OGC serializer (EncBytes / EncPat with byte orders mixed per nested element) and a complete reference "
         "decoder (DecBytes) over concrete bytes, with coordinates as 8-byte bit patterns; TLC checks Dec(Enc(g)) = g and rejection of "
         "every truncation over the bounded universe. TLC enumerates geometry trees x byte orders; the real encoder's bytes and hex "
         "text must equal EncBytes/HexDigits, and the real decoder (wkb and hex, lower and upper case) must return the tree DecBytes "
         "returns for every mixed-byte-order encoding; seeded random trees with random bit patterns extend the universe.",
    design_ref="DESIGN.md section 5, C05",
    note="Trusted: TLC, the harness's float64 <-> 8-byte conversion. Exhaustive for member counts 0-2, nesting <= 3, eight adversarial "
         "bit patterns; random trees up to ~400 bytes.",
    technique="TLA+ byte-level WKB serializer and reference decoder evaluated by TLC on TLC-enumerated and random cases recorded from "
              "the real codec (trace validation)")
CHECKS["C07"] = dict(
    level="model_checking",
    text="WKBDecoder.tla models the decoder as a push-down automaton over reads in which the untrusted input chooses each field's value "
         "class (bad byte orders/types, counts up to 2^31-1, end of input inside any field) and `alloc` grows where the code sizes "
         "memory; TLC checks AllocBound, totality (liveness) and agreement with the byte-level reference decoder on every behaviour. "
         "Each terminal behaviour is rendered to bytes and given to the real wkb.Decode / hex.Decode inside a sandbox child with "
         "allocation metering; WKBTrace.tla checks Total, AllocBound (<= 64 len + 1 MiB), Reencode and equality with DecBytes. "
         "GeoJSONShape.tla transcribes doFromGeoJSON's shape checks; TLC enumerates coordinates trees one mutation away from "
         "well-formed ones (and all small trees) under nine type strings, and the real geojson.Decode / FromGeoJSON (also with typed Go "
         "values, textual mutations, 64 KiB nesting) are validated for Total / AllocBound / Reencode.",
    design_ref="DESIGN.md section 5, C07",
    note="Trusted: TLC, runtime.MemStats.TotalAlloc as the allocation meter, the sandbox (8 s deadline, 3 GiB address space). The "
         "reference decoder is applied to inputs <= 400 bytes; 64 KiB inputs are checked for totality, allocation, re-encoding only.",
    technique="TLA+ decoder automaton with environment-chosen field classes model-checked by TLC; its behaviours concretised to bytes and "
              "replayed on the real decoders in a sandbox; recorded outcomes validated by TLC against a byte-level reference decoder")

CHECKS["C02"] = dict(
    level="exploration",
    text="Within.tla defines Classify (exact even-odd rule with on-segment test over integer determinants, implicit closing segment, "
         "rings < 3 vertices ignored, all member polygons) and transcribes pointInPolygonal/rayIntersectsSegment (bounding-box "
         "pre-filter, nudged ray as an infinitesimal, cross-multiplied slope comparison); TLC proves the transcription equal to "
         "Classify for every ring of the small lattice and every lattice point. TLC-enumerated rings (degenerate, self-intersecting, "
         "clockwise, closed, unclosed), two-ring polygons, two-member multi-polygons and aggregate receivers are put to the real "
         "Point.Within for every half-integer lattice point, and seeded random polygons up to 2^14 with adversarial query points; "
         "WithinTrace.tla compares every recorded answer with Classify.",
    design_ref="DESIGN.md section 5, C02",
    note="Trusted: TLC, exactness of float64 on small (half-)integers and on integers <= 2^14 scaled by powers of two. Arbitrary "
         "non-dyadic floats are not covered.",
    technique="TLA+ exact point-in-polygon oracle + transcription of the ray-casting code checked equal by TLC; TLC-enumerated cases "
              "replayed on the code and validated by TLC (trace validation)")

CHECKS["C01"] = dict(
    level="exploration",
    text="PolyOps.tla gives the point-set meaning of the four operations (exact even-odd membership over all rings of all members, "
         "Bool(op)) and, for the rectilinear family (A on even, B on odd lattice lines), classifies every unit cell of the window on "
         "both sides: the real result's rings (integral by construction) are evaluated by TLC with the same exact membership test, so "
         "region, area, emptiness and closedness are decided exactly for every receiver/argument type combination. For valid lattice "
         "triangles/quadrilaterals in general position (validity and general position decided by TLC) sample points with an exact "
         "clear margin are compared. TLC also checks the box/box shortcut of Bounds.Intersection against the true common rectangle.",
    design_ref="DESIGN.md section 5, C01",
    note="Trusted: TLC, exactness of float64 on the small lattices, and for family F2 the harness's crossing-number routine that tells "
         "whether a sample (>= 1/4 lattice unit from every operand edge) lies in the *result*. Operands are lattice polygons only.",
    technique="TLA+ exact point-set oracle evaluated by TLC on recorded results of TLC-enumerated and random operand pairs (trace "
              "validation); small TLC model of the box-intersection dispatch")

CHECKS["C03"] = dict(
    level="exploration",
    text="Measures.tla defines twice-the-area and the centroid as exact integers / rationals of the *shape* (shell minus holes, "
         "sign-corrected ring moments) and TLC asserts validity of every catalogue shape; TLC generates the spelling orbit (per-ring "
         "reversal x rotation x closed/unclosed) and the real Area / Centroid (Polygon, MultiPolygon, package op) of every spelling "
         "must equal the shape's invariants (centroid to 2/1000, area exactly); Length must equal the integer sum of Pythagorean "
         "segment lengths, Distance^2 the minimum rational point-segment distance; Buffer is checked algebraically on quantised "
         "observations (vertex count, first vertex, on-circle, equal chords, left turns, perimeter < 2 pi r).",
    design_ref="DESIGN.md section 5, C03",
    note="Trusted: TLC, float exactness on small lattices, rounding of recorded floats to 1/1000 (1e-6 for Buffer). Non-lattice "
         "floats and the transcendental content of Buffer are not covered; Polygon.Centroid/op.* only for orientation-consistent, "
         "closed spellings (their documented domain).",
    technique="TLA+ exact rational measures evaluated by TLC on recorded answers for TLC-generated spelling orbits (trace validation)")

CHECKS["C14"] = dict(
    level="exploration",
    text="Clip.tla computes the exact combinatorial clip of a simple (multi-)line against a valid polygonal in general position: proper "
         "crossings per segment ordered by rational parameter, inside/outside alternation from the exact membership of the first "
         "vertex, hence the expected position intervals. The real Clip's output vertices are mapped to descriptors (line vertex / "
         "crossing of segment i with edge e of ring r, identified by exact rational intersection) and ClipTrace.tla requires every "
         "piece to be a sub-path of its line and the union of pieces to equal the expected intervals (so vertices lie on L and in "
         "P, total length is that of the intersection, and the result is empty exactly when L does not enter P). Simplicity and "
         "general position of every case are decided by TLC.",
    design_ref="DESIGN.md section 5, C14",
    note="Trusted: TLC, the harness's exact (big.Rat) identification of an output vertex with a crossing when within 1e-9. Lattice "
         "inputs <= 64.",
    technique="TLA+ exact combinatorial clipping oracle evaluated by TLC on recorded results of TLC-enumerated and random cases "
              "(trace validation)")

CHECKS["C15"] = dict(
    level="exploration",
    text="Similar.tla defines Sim (same type and counts, a bijection between members found by enumerating permutations, closed rings up "
         "to rotation, everything else position by position) and transcribes the code's greedy matching; TLC checks greedy = "
         "bijection and symmetry on the whole generated universe. TLC generates pairs (g, mu(g)) for base geometries of all eight "
         "types under the mutations the property names (permutation, rotation, sub-/super-tolerance perturbation, single-vertex "
         "displacement, member insertion/deletion, line reversal, type change) and both g.Similar(h) and h.Similar(g) of the real "
         "code must equal Sim.",
    design_ref="DESIGN.md section 5, C15",
    note="Trusted: TLC. Integer coordinates, tolerance 10, members at least 10 tol apart (matching unambiguous).",
    technique="TLA+ bijection-based similarity oracle + transcribed greedy matching checked by TLC; TLC-generated mutation pairs "
              "replayed on the code and validated by TLC (trace validation)")

CHECKS["C16"] = dict(
    level="model_checking",
    text="Shapefile.tla is the queue model of the encoder/decoder pair (Create . Encode* . CloseW . OpenR . DecodeRow*) with the "
         "normalisation Stored(r) (LineString -> one-part MultiLineString, rings closed, *Bounds -> five-vertex rectangle, "
         "bit-identical coordinates, integer/string/float attribute rules); TLC checks FIFO order and count on the bounded model and "
         "emits every complete behaviour; each is executed against real .shp/.shx/.dbf files in a fresh temporary directory through "
         "both API pairs (struct-based with differently cased decode fields, field-based) and ShapefileTrace.tla follows the model "
         "state, requiring every DecodeRow answer to be the Stored form of the record at the read position.",
    design_ref="DESIGN.md section 5, C16",
    note="Trusted: TLC, go-shp as the file layer, the harness's id mapping of coordinates/strings/floats. Domain: six finite float64 "
         "bit patterns, proper boxes, strings without leading/trailing spaces, values within field widths, no nil geometries.",
    technique="TLA+ queue model checked by TLC; TLC behaviours executed on real shapefiles; recorded calls validated step by step by TLC")

CHECKS["C19"] = dict(
    level="model_checking",
    text="Route.tla defines MinCost (Bellman-Ford), ChainOK and the exact totals, and models gonum's A* (open/closed sets, g scores, "
         "expansion of the least f = g + h) parameterised by the Network's weight function and heuristic; TLC checks that the search "
         "always ends with g[goal] = MinCost for every bounded network on a line (termination under weak fairness) and, as a vacuity "
         "self-test, that unit link weights (the pre-repair Network) violate it. TLC enumerates planar networks (link sets, extra "
         "lengths, speeds, two AddLink orders, both options, query-point pairs) which are built on the real Network and queried; "
         "RouteTrace.tla requires every returned route to be a chain between the nearest nodes with exact totals and minimum cost, "
         "and empty exactly when the nodes are not connected.",
    design_ref="DESIGN.md section 5, C19",
    note="Trusted: TLC, exactness of sums of integer lengths and of len/speed for speeds 1, 2, 4. Links are axis-parallel polylines; "
         "nodes are far apart (node identification by relative tolerance is only exercised on exact coincidence).",
    technique="TLA+ model of A* checked by TLC against Bellman-Ford; TLC-enumerated networks built and queried on the real code; "
              "recorded routes validated by TLC (trace validation)")

CHECKS["C06"] = dict(
    level="exploration",
    text="TextCodecs.tla contains the RFC 7946 geometry-object grammar as a recursive-descent recogniser over tokens that returns the "
         "parsed geometry (members type/coordinates in either order, array nesting fixed by the type, positions [x, y]); TLC checks "
         "the recogniser against its own renderer (parse(render(g)) = g, any single token removed is rejected). The real encoder's "
         "text is lexed by a hand-written lexer with exact decimal->binary rounding (math/big), and TextTrace.tla requires the "
         "tokens to parse to exactly g, Decode(Encode(g)) = g bit for bit, and errors for unsupported types and non-finite values.",
    design_ref="DESIGN.md section 5, C06 / C17",
    note="Trusted: TLC, the harness lexer and its big.Rat decimal conversion. Exhaustive for member counts 1-3 over ten adversarial "
         "finite values; random geometries with random finite bit patterns.",
    technique="TLA+ token grammar / parser evaluated by TLC on the lexed output of the real encoder for TLC-enumerated and random "
              "geometries (trace validation)")
CHECKS["C17"] = dict(
    level="exploration",
    text="Same TextCodecs family: the OGC WKT grammar (keyword and parenthesis nesting per type, 'x y' positions, comma-separated "
         "members) as a recogniser returning the parsed geometry; the real wkt.Encode output is lexed and must parse to exactly g "
         "(same type, nesting and float64 bit patterns); unsupported types must be errors.",
    design_ref="DESIGN.md section 5, C06 / C17",
    note="Trusted: as C06.",
    technique="TLA+ WKT grammar / parser evaluated by TLC on the lexed output of the real encoder (trace validation)")

CHECKS["C20"] = dict(
    level="exploration",
    text="CRSText.tla maps every abstract CRS (projection, linear unit, TOWGS84 terms, parameter-naming style, PARAMETER order) to its "
         "PROJ.4 key/value list and its OGC WKT section tree, and contains symbolic models of both parsers (projString; the recursive "
         "section walk of wkt.go with its path tests, discarded errors and post-processing); TLC checks that both readings assign the "
         "same terms to every field the transformer uses - including the false origin scaled by the declared unit - and, as a vacuity "
         "self-test, that the model without the LongC fix-up fails. The TLC-generated structures are rendered with seeded values, "
         "parsed by the real proj.Parse, and CRSTextTrace.tla requires field agreement within 4 ULP, transformer agreement within "
         "1000 nm over a grid, Equal for double parses, nil transformers exactly for Equal references, the same reference through "
         "shp.Decoder.SR(), and the registry laws.",
    design_ref="DESIGN.md section 5, C20",
    note="Trusted: TLC, the harness's rendering of the generated structures and its nanometre differences (two runs of the real code; no "
         "external numeric oracle). Definitions without TOWGS84 are compared within one text flavour.",
    technique="TLA+ clause-mapping specification with symbolic parser models checked by TLC; TLC-generated text structures parsed by the "
              "real code; recorded agreement validated by TLC (trace validation)")

CHECKS["C08"] = dict(
    level="exploration",
    text="Reduced claim (DESIGN.md section 6). RoundTrip.tla models the NewTransform closure as a word of stage symbols (unit, inverse, "
         "prime meridian, datum shift or the two-leg route through WGS84, forward, unit) with formal inverses, and TLC checks that "
         "A -> B followed by B -> A reduces to the empty word for every pair of configurations of the matrix (8 projections x "
         "sphere/ellipsoid x datum class x unit x prime meridian x hemisphere). Every configuration is instantiated with seeded "
         "parameters (zones 1-60, parallels, origins, every built-in ellipsoid / datum / prime-meridian name) and the real "
         "transformers WGS84 -> P -> WGS84 -> P are applied to positions of the usable region; RoundTripTrace.tla requires no error, "
         "|dlon|,|dlat| <= 1e-6 degree and |dx|,|dy| <= 1 cm as integer inequalities.",
    design_ref="DESIGN.md sections 5 (C08) and 6",
    note="Trusted: TLC and the harness's deviations (two runs of the real code, no external numeric oracle: agreement with reference "
         "formulas is C09, not claimed). Datum-shifted systems are exercised in the region their datum is defined for, because a 2-D "
         "transformation cannot carry the ellipsoidal height through the round trip.",
    technique="TLA+ pipeline-word model checked by TLC over the configuration matrix; TLC-enumerated configurations instantiated and run "
              "on the real code; recorded deviations validated by TLC as integer inequalities")

# additions to the level texts made while the generators were widened (DESIGN.md 9.6)
ADDED = {'C01': " Operands are also spelled as one Polygon holding two disjoint shells and with the hole listed before its shell. A *Bounds dispatch family (for every pattern of the rectangle's corners with respect to a holed or two-member partner, the smallest and largest rectangle, both argument positions) and magnitude-shifted copies (coordinates x 2^sh, exact) are part of the universe; the same two values are passed to all four operations and to the requested one again, and the last result must equal the first. In every other case the ring lists of all polygons of both operands share one array (interleaved, with spare capacity), and the operands must be unchanged after the calls. Every third case spells the operand rings closed. The vertices of all rings of both operands also share one array in those cases. Unclosed rings start at their largest vertex in part of the cases. All disjoint pairs of two *Bounds operands are included.", 'C02': ' Aggregate receivers include lists with exactly one vertex outside (or on the edge) at every position. Receivers whose bounding-box corners are inside while a vertex lies in a hole or notch are included. Part of the polygons is also asked at 2^-560 and 2^520. Multi-line receivers are split into two members in every order-preserving way. Rectangles are also asked as *Bounds arguments.', 'C03': " Two-member shapes are also spelled with whole members reversed. Distance is also checked close to long oblique segments (exact squared distance from TLC, error of the real answer relative to the coordinate size <= 1e-10); paths include long and closed ones and multi-line strings of unequal members. Every shape, spelling and long path is also presented translated by about 1e8 / 3e8 / 7e7 (area, length and distance unchanged, centroid reported relative to the translation). The same shapes and paths are also presented at 2^-20 and 2^24 (exact scaling). Lengths are also taken at 2^-600 / 2^600. Boxes (*Bounds): centre and area, the centre also at 2^1021. The catalogue includes a hole whose bounding box contains another hole's. Every other shape has its rings in one shared array of points and must be unchanged after measuring.", 'C04': ' Box pairs include boxes with infinite coordinates, the empty box against the whole plane, and Extend by boxes that Empty() calls empty without being the canonical empty box. The box a Bounds call returned is grown afterwards; later answers must not depend on it.', 'C05': " Wide elements (15-33 members, point arrays of 255-2055 points with an aperiodic pattern) and the stability of an encoding still held when the next geometry is encoded are part of the check. Chains of one-member collections 40 / 1025 deep (up to 2049 in the thorough tier) are encoded by the real encoder and decoded from TLC's mixed-byte-order bytes and from hex text. Every decode input is also read through wkb.Read from readers that return less than requested. Consecutive equal vertices (also +0 followed by -0) are part of the universe. Encodings written back to back are read one by one from a reader without ReadByte.", 'C06': ' The universe includes empty members after a non-empty first member, consecutive duplicate vertices, and the stability of a text still held when the next geometry is encoded. Geometries holding +/- the largest finite float64 together (Extremes) are included. Closed line strings of up to six vertices are included.', 'C17': ' The universe includes consecutive duplicate vertices and the stability of a text still held when the next geometry is encoded. Geometries holding +/- the largest finite float64 together (Extremes) are included. Every number of the text must be the shortest decimal that reads back as the same float64. The pool includes values a 32-bit float holds exactly. Closing vertices equal to the first as numbers but not as bit patterns are included. Closed line strings of up to six vertices are included.', 'C07': ' Complete members of a foreign type inside multi-geometries, unknown type codes (0, 8, 255) alone and as members, and a 1100-point array followed by foreign bytes are generated directly (a bounded read sequence does not reach them). GeoJSON bases include rings with a doubled closing position and a ring of one position three times. Every decode input is also read through wkb.Read from readers that return less than requested (no panic). Successful decodes are re-encoded in both byte orders.', 'C08': ' Conics also come with a single standard parallel and (LCC) a scale factor, Mercator with a latitude of true scale; the transverse series is sampled densely between 0.5 and 1.7 degrees of latitude. Three of five definitions leave the false origin, the latitude of origin or the central meridian to its default. The latitude of origin of conics varies (mean of the parallels, equator, south of the first parallel). One ellipsoid in five is replaced by its authalic sphere (+R_A). Every other UTM definition lies next to the antimeridian (zones 1 and 60), every third tmerc has its central meridian there. Every other conic without a datum home has its central meridian next to the antimeridian.', 'C10': ' One of the sample positions is written in the 0..360 longitude convention; an eighth definition whose projection set-up fails checks that the error is reported on every call. Every other history parses the merc / lcc definitions without the parameters that equal their defaults. The lcc definition carries +R_A (its derived constants change if derived twice). Every third history makes failing probe calls before each recorded call. Every other history spells the axis-reversed definition with a height letter in the middle (+axis=wdn). Definition 5 is a Krovak reference on a non-Bessel ellipsoid with a seven-parameter shift. Probe histories also call an unrelated transformer with the same coordinates.', 'C11': ' Random histories include degenerate pools (collinear points, symmetric unit squares, three boxes repeated); reachability of three levels, root collapse and refill is asserted by TLC witnesses.', 'C12': ' In trees of three or more levels additional queries are placed just outside the faces of upper-level boxes and, after a delete, on a grid over the whole extent. Fixed query points are asked in alternating order across operations.', 'C13': ' A shallow-crossing family (crossing angles below 2 degrees) is included. Multi-polygons of two one-ring members on the same small lattice: each member must equal its solo result. Ring-less polygons are included. Polygons of unclosed rings sharing one array of points are included.', 'C14': ' Part of the cases is presented at magnitudes 2^-20 / 2^20 (exact scaling); each line is clipped twice by the same polygon value and both answers must agree. The same single line cut into 257 pieces per segment must be clipped to the same total length. After the recorded call the polygon is moved in place and the moved line clipped again. The catalogue includes a thin oblique hole.', 'C15': ' Mutations include insertion of empty members on either side and rotation of closed line strings / multi-points (which must not be similar). Bases include closed rings that enclose nothing (bow-tie, folded sliver). Comparisons are repeated with operands that share their storage. Part of the pairs is also compared at magnitudes 2^-600 and 2^600 (coordinates and tolerance). In every other case the vertex lists of each operand share one array of points; operands must be unchanged. Bases include rings that pass through their start vertex twice.', 'C16': " Three column layouts are used (short names; a 10-byte and an 11-byte name with the string column last; a field whose Go name equals the tag of another field), and strings that begin or end with white space other than blanks. Rows are also read for their geometry alone (DecodeRowFields without names): the model's DecodeGeom action moves the same cursor. The polygon pool includes a two-vertex unclosed ring. Files written through EncodeFields are also read with DecodeRow into a struct matched by field name only. The pool includes a geometry without points and parts without points between other parts.", 'C19': " A near-tie cycle geometry (alternatives differing by 2 in 12000) and a chord family (an expensive direct link to the goal next to the optimal chain) exercise the admissibility of the heuristic. Twin queries (two points a hair's breadth on either side of the midpoint of two nodes) are included. Slow networks (all speeds below one) are included. Every third case asks the finished network other questions first.", 'C20': ' The linear UNIT clause is placed before or after the PARAMETER clauses, every third value draw uses a seven-parameter shift consisting of rotations and scale only, and a reference differing only in its datum shift must be a different reference in both directions. Mercator_1SP is also written with PARAMETER["latitude_of_origin",0] (ogc style). The spheroid is also written under the recognised names GRS_1980 / WGS_1984 with the case\'s own figures. A registered name and its definition must be Equal both ways with a nil transformer between them. Nil-iff-Equal is also examined against the previous case\'s geographic reference (same datum name, other figures). One parameter order in three names the datum D_WGS_1972. Nil-iff-Equal and \'Equal references project alike\' are examined against the previous case\'s WKT reference.', 'C18': ' An extraction that stops making progress is reported as a hang; after eight confirmed hangs or crashes the remaining cases of the run are not executed (counted in the evidence; the run fails). Deep reference chains (40 / 70 relations selected from the far end) are replayed gated and free-running. The tag filter has two keys; selected and unselected objects spell their tags in several orders. Curated documents include ways without node references; in-bounds nodes also lie on the boundary of the box. Free-running extractions also get readers that were already read.'}
for _k, _a in ADDED.items():
    CHECKS[_k]["text"] += _a

NOT_YET = "check not built yet in this round of work; will be claimed when its specification, replay and trace validation exist"
NA = {
    "C09": "oracle is proj4js 2.3.12 and closed-form geodesy (real-valued transcendental functions, a JavaScript program that "
           "cannot run here); TLA+/TLC has no reals or floating point, so a specification could decide nothing (DESIGN.md section 6)",
}


def main():
    checks = []
    for pid in ALL:
        if pid not in CHECKS:
            continue
        c = CHECKS[pid]
        checks.append({
            "property_id": pid,
            "quick_cmd": "./check %s quick" % pid,
            "thorough_cmd": "./check %s thorough" % pid,
            "evidence_file": "/verif/evidence/%s.json" % pid,
            "replay_cmd_template": "./check %s quick --replay {path}" % pid,
            "engine": "tlc+drive",
            "level_claimed": {"category": c["level"], "text": c["text"], "design_ref": c["design_ref"]},
            "level_note": c["note"],
            "technique": c["technique"],
        })
    na = []
    for pid in ALL:
        if pid in CHECKS:
            continue
        na.append({"property_id": pid, "reason": NA.get(pid, NOT_YET)})
    goenv = "GOFLAGS=-mod=mod GOPROXY=off GOSUMDB=off GOTOOLCHAIN=local"
    m = {
        "version": 1,
        "setup_cmd": "cd /verif/harness && %s go build -tags verif -o /verif/out/bin/drive ./cmd/drive" % goenv,
        "hooks": {
            "guard": "verif",
            "enable": "go build -tags verif (the harness module /verif/harness replaces github.com/ctessum/geom with /repo)",
            "baseline_off_cmd": "cd /repo && %s go test -vet=off -count=1 -timeout 25m $(%s go list ./... | grep -v /carto)" % (goenv, goenv),
            "source_commits": HOOK_COMMITS,
            "add_only": True,
        },
        "engines": [
            {"name": "tlc+drive", "path": "/verif/check",
             "serves_properties": sorted(CHECKS),
             "kind_free_text": "python3 runner (runner/vlib.py) orchestrating TLC 1.8.0 on the TLA+ specs under /verif/spec and the Go "
                               "replay/record harness /verif/harness (built against /repo with -tags verif)"}],
        "checks": checks,
        "not_applicable": na,
        "notes": "Every check: TLC model-checks the design spec, TLC generates cases/behaviours, the Go harness replays them on the code "
                 "built from /repo's working tree and records traces, TLC validates the traces against the trace spec. Exit 2 = machinery "
                 "failure (never a verdict). Known findings: /verif/known_findings.json. Extension families X01 (package op), X02 (encoding/osm Geom / CountTags) and X03 (the +axis / +to_meter stages of the proj transformation closure) specify behaviour outside the listed properties: ./check X01|X02|X03 quick|thorough, DEVIATION lines, evidence under /verif/evidence_ext (DESIGN.md 9.7); they are not checks of this manifest.",
    }
    with open(os.path.join(VERIF, "MANIFEST.json"), "w") as f:
        json.dump(m, f, indent=1)
        f.write("\n")


HOOK_COMMITS = ["d8229ad", "4b3ed9c"]

if __name__ == "__main__":
    main()

"""C05 - WKB and hex encoding are lossless and byte-exact to the OGC layout.
   (also serves the WKB/hex half of C07 with Focus = "C07")"""
import json
import os
import vlib

LEVEL = "exploration"
SPEC = ["C05_WKB"]


def classify(block, idx):
    return None


def wkb_pipeline(run, focus):
    quick = run.tier == "quick"
    out = run.out
    # ---- the byte-level oracle is self-consistent: Dec(Enc(g)) = g for every byte-order pattern, truncations are rejected
    p = os.path.join(out, "MC.cfg")
    L, LG = (2, 1) if quick else (3, 2)
    with open(p, "w") as f:
        f.write("SPECIFICATION Spec\nCHECK_DEADLOCK FALSE\nCONSTANTS\n  L = %d\n  LG = %d\nINVARIANT RoundTrip\nINVARIANT TruncationsRejected\n" % (L, LG))
    run.tlc("mc_oracle", SPEC, "WKBMC", p, workers=8, timeout=3000)
    # ---- the decoder automaton (R2): allocation bound, totality, agreement with the reference decoder
    reads = 5 if quick else 7
    p = os.path.join(out, "MCD.cfg")
    with open(p, "w") as f:
        f.write("SPECIFICATION Spec\nCHECK_DEADLOCK FALSE\nCONSTANTS\n  MaxReads = %d\n  MaxDepth = 3\n"
                "INVARIANT AllocBound\nINVARIANT AgreesWithReference\nPROPERTY Total\n" % reads)
    r = run.tlc("mc_decoder", SPEC, "WKBDecoder", p, workers=8, timeout=3000,
                extra=["-coverage", "1"] if not quick else None)
    run.coverage_zeros(r)
    # ---- cases
    cases = []
    wn, wb = ("{16, 17}", "{256, 1025}") if quick else ("{15, 16, 17, 33}", "{255, 256, 257, 1024, 1025, 2055}")
    if focus == "C05":
        p = os.path.join(out, "GenC.cfg")
        with open(p, "w") as f:
            f.write("SPECIFICATION GenSpec\nCHECK_DEADLOCK FALSE\nCONSTANTS\n  L = %d\n  LG = %d\n  Mode = \"codec\"\n  MaxReads = 0\n  MaxDepth = 0\n  WideN = %s\n  WideB = %s\n  HexLen = 0\n  DeepD = %s\n" % (L, LG, wn, wb, "{40, 1025}" if quick else "{33, 65, 129, 201, 257, 513, 1025, 2049}"))
        cp = os.path.join(out, "codec.ndjson")
        run.gen("gen_codec", SPEC, "WKBGen", p, cp, workers=1, timeout=3000, require=["enc", "dec", "deep"])
        cases += vlib.read_ndjson(cp)
    else:
        p = os.path.join(out, "GenH.cfg")
        with open(p, "w") as f:
            f.write("SPECIFICATION GenSpec\nCHECK_DEADLOCK FALSE\nCONSTANTS\n  L = 0\n  LG = 0\n  Mode = \"hostile\"\n  WideN = {}\n  WideB = {}\n  HexLen = 0\n  DeepD = {}\n  MaxReads = %d\n  MaxDepth = 3\nINVARIANT EmitHostile\n" % (4 if quick else 6))
        cp = os.path.join(out, "hostile.ndjson")
        run.gen("gen_hostile", SPEC, "WKBGen", p, cp, workers=4, timeout=3000)
        cases += vlib.read_ndjson(cp)
        # members of a foreign type inside multi-geometries (complete geometries, so no bounded read sequence reaches them)
        p = os.path.join(out, "GenF.cfg")
        with open(p, "w") as f:
            f.write("SPECIFICATION GenSpec\nCHECK_DEADLOCK FALSE\nCONSTANTS\n  L = 0\n  LG = 0\n  Mode = \"foreign\"\n  WideN = {}\n  WideB = {}\n  HexLen = %d\n  DeepD = {}\n  MaxReads = 0\n  MaxDepth = 0\n" % (2 if quick else 3))
        cp = os.path.join(out, "foreign.ndjson")
        run.gen("gen_foreign", SPEC, "WKBGen", p, cp, workers=1, timeout=3000)
        cases += vlib.read_ndjson(cp)
    cpath = os.path.join(out, "cases.ndjson")
    vlib.write_ndjson(cpath, cases)
    tr1 = os.path.join(out, "trace_replay.ndjson")
    run.drive(["c05", "replay", cpath, tr1], timeout=3000)
    nrand = 1200 if quick else 30000
    tr2 = os.path.join(out, "trace_random.ndjson")
    run.drive(["c05", "random", nrand, tr2], timeout=3000)
    run.bounds = {"L": L, "LG": LG, "decoder_reads": reads, "tlc_cases": len(cases), "random": nrand}
    tcfg = os.path.join(out, "Trace.cfg")
    with open(tcfg, "w") as f:
        f.write("SPECIFICATION TraceSpec\nINVARIANT TReport\nCHECK_DEADLOCK FALSE\nCONSTANTS\n  Focus = \"%s\"\n" % focus)
    ntriv = set()
    for name, tr, exp in (("trace_replay", tr1, len(cases)), ("trace_random", tr2, nrand)):
        fails, lines = run.validate(name, SPEC, "WKBTrace", tcfg, tr, expected_cases=exp, timeout=3000)
        for fl in fails:
            block, idx = run.case_block(lines, fl)
            run.report_failure(block, idx, classify)
        for ln in lines:
            if '"ev":"reset"' in ln:
                c = json.loads(ln)
                if focus == "C05":
                    # non-trivial: an encode case or a valid decode case with a nested / multi element
                    if c["kind"] == "enc" and c["g"]["t"] != "Point":
                        ntriv.add(json.dumps([c["g"], c["bo"]]))
                    elif c["kind"] == "deep":
                        ntriv.add(json.dumps([c["leaf"], c["d"], c["bo"]]))
                    elif c["kind"] == "dec" and c.get("valid"):
                        ntriv.add(json.dumps(c.get("bytes")))
                elif c["kind"] == "dec" and not c.get("valid"):
                    ntriv.add(json.dumps(c.get("bytes") or c.get("gen")))
        if not run.samples:
            run.samples = [json.loads(x) for x in lines[:4]]
    run.distinct_nontrivial = len(ntriv)
    if focus == "C05":
        run.rule = ("TLC enumerates geometry trees of the seven types (member counts 0-2, nesting <= 3, eight adversarial bit patterns) x both "
                    "byte orders for encoding and x eight per-element byte-order patterns for decoding; chains of one-member collections up to 1025 (quick) / 2049 (thorough) deep; seeded random trees with random "
                    "bit patterns; non-trivial = an encode case of a non-Point geometry or a valid decode case; distinct = distinct input")
    else:
        run.rule = ("every terminal behaviour of the decoder automaton (reads <= bound: each count from {0,1,2,2^20,2^28,2^31-1}, bad byte "
                    "orders/types, end of input inside any field) rendered to bytes; seeded mutations of valid encodings (truncation, bit "
                    "flip, count inflation, header corruption) and described inputs up to 64 KiB (deep nesting, huge counts); "
                    "non-trivial = a hostile (not known-valid) input; distinct = distinct byte string / description")
    run.assumptions = ["coordinates are compared as 8-byte bit patterns", "allocation = runtime.MemStats.TotalAlloc delta around wkb.Decode",
                       "the byte-level reference decoder is applied to inputs listed in the trace (<= 400 bytes); larger inputs are "
                       "checked for totality, allocation and re-encoding only"]


def run(run):
    wkb_pipeline(run, "C05")


def replay(run, path, focus="C05"):
    with open(path) as f:
        rec = json.load(f)
    hd = dict(rec["recording"][0])
    hd.pop("ev", None)
    hd.pop("case", None)
    cp = os.path.join(run.out, "cases.ndjson")
    vlib.write_ndjson(cp, [hd])
    tr = os.path.join(run.out, "trace_replay.ndjson")
    run.drive(["c05", "replay", cp, tr])
    tcfg = os.path.join(run.out, "Trace.cfg")
    with open(tcfg, "w") as f:
        f.write("SPECIFICATION TraceSpec\nINVARIANT TReport\nCHECK_DEADLOCK FALSE\nCONSTANTS\n  Focus = \"%s\"\n" % focus)
    fails, lines = run.validate("trace_replay", SPEC, "WKBTrace", tcfg, tr, expected_cases=1)
    for fl in fails:
        block, idx = run.case_block(lines, fl)
        run.report_failure(block, idx, classify)
    run.samples = [json.loads(x) for x in lines]
    run.distinct_nontrivial = 1
    run.rule = "replay of one recorded case"

"""C07 - decoders are total on untrusted input (WKB / hex half; the GeoJSON half is added by fam_C07_geojson)."""
import fam_C05

LEVEL = "model_checking"


def run(run):
    fam_C05.wkb_pipeline(run, "C07")
    try:
        import fam_C07_geojson
    except ImportError:
        return
    fam_C07_geojson.pipeline(run)


def replay(run, path):
    import json
    with open(path) as f:
        rec = json.load(f)
    if rec["recording"][0].get("kind") in ("gj", "gjvalue"):
        import fam_C07_geojson
        return fam_C07_geojson.replay(run, path)
    fam_C05.replay(run, path, focus="C07")

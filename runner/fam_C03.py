"""C03 - area, centroid, length and distance are the true measures of the shape."""
import json
import os
import vlib

LEVEL = "exploration"
SPEC = ["C03_Measures"]


def classify(block, idx):
    return None


def run(run):
    quick = run.tier == "quick"
    out = run.out
    ms = 20 if quick else 3
    p = os.path.join(out, "Gen.cfg")
    with open(p, "w") as f:
        f.write("SPECIFICATION GenSpec\nCHECK_DEADLOCK FALSE\nCONSTANTS\n  MS = %d\n" % ms)
    cp = os.path.join(out, "cases.ndjson")
    ncases = run.gen("gen", SPEC, "MeasuresGen", p, cp, workers=1, timeout=3000, require=["shape", "line", "len", "box", "near", "buffer", "far", "sh="])
    tr1 = os.path.join(out, "trace_replay.ndjson")
    run.drive(["c03", "replay", cp, tr1], timeout=3000)
    nrand = 500 if quick else 20000
    tr2 = os.path.join(out, "trace_random.ndjson")
    run.drive(["c03", "random", nrand, tr2], timeout=3000)
    run.bounds = {"MS": ms, "random": nrand}
    tcfg = os.path.join(out, "Trace.cfg")
    with open(tcfg, "w") as f:
        f.write("SPECIFICATION TraceSpec\nINVARIANT TReport\nCHECK_DEADLOCK FALSE\n")
    ntriv = set()
    for name, tr, exp in (("trace_replay", tr1, ncases), ("trace_random", tr2, nrand)):
        fails, lines = run.validate(name, SPEC, "MeasuresTrace", tcfg, tr, expected_cases=exp, timeout=3000)
        for fl in fails:
            block, idx = run.case_block(lines, fl)
            run.report_failure(block, idx, classify)
        for ln in lines:
            if '"ev":"reset"' in ln:
                c = json.loads(ln)
                if c["kind"] == "shape":
                    # non-trivial: a spelling that differs from the base (reversed / rotated / closed ring) or has a hole
                    if json.dumps(c["base"]) != json.dumps(c["spelled"]):
                        ntriv.add(json.dumps(c["spelled"]))
                else:
                    c.pop("case", None)
                    ntriv.add(json.dumps(c, sort_keys=True))
        if not run.samples:
            run.samples = [json.loads(x) for x in lines[:4]]
    run.distinct_nontrivial = len(ntriv)
    run.rule = ("a catalogue of valid lattice shells (convex, concave) with 0-2 holes and two-member multi-polygons (validity asserted by "
                "TLC) x the spelling orbit per ring (reversal x rotation x closed/unclosed, thinned by MS); paths of 1-3 Pythagorean or "
                "axis-parallel steps x 6 query points; Buffer for 2 centres x 3 radii x 5 segment counts; seeded random staircase "
                "polygons with random spellings. Non-trivial = a spelling different from the base, or any line/buffer case")
    run.assumptions = ["lattice inputs only; centroid and squared distance compared to within 2/1000; Buffer checked algebraically on "
                       "values quantised to 1/1000 (count, first vertex, on-circle, equal chords, left turns, perimeter < 2 pi r)"]


def replay(run, path):
    with open(path) as f:
        rec = json.load(f)
    hd = dict(rec["recording"][0])
    hd.pop("ev", None)
    hd.pop("case", None)
    cp = os.path.join(run.out, "cases.ndjson")
    vlib.write_ndjson(cp, [hd])
    tr = os.path.join(run.out, "trace_replay.ndjson")
    run.drive(["c03", "replay", cp, tr])
    tcfg = os.path.join(run.out, "Trace.cfg")
    with open(tcfg, "w") as f:
        f.write("SPECIFICATION TraceSpec\nINVARIANT TReport\nCHECK_DEADLOCK FALSE\n")
    fails, lines = run.validate("trace_replay", SPEC, "MeasuresTrace", tcfg, tr, expected_cases=1)
    for fl in fails:
        block, idx = run.case_block(lines, fl)
        run.report_failure(block, idx, classify)
    run.samples = [json.loads(x) for x in lines]
    run.distinct_nontrivial = 2
    run.rule = "replay of one recorded case"

"""Shared orchestration for the TLA+ model-based checks of ctessum/geom.

Every check is   ./check <Cxx> quick|thorough   and follows the same pipeline
(DESIGN.md section 4.3):

    build harness from /repo's working tree (-tags verif)
    MC    : TLC exhaustive run of the design spec  (R2 |= R1)      -> states/transitions, coverage
    Gen   : TLC emits cases / behaviours as NDJSON                 -> out/<id>/cases*.ndjson
    drive : Go harness replays them on the real code, plus a seeded random driver
                                                                   -> out/<id>/trace*.ndjson
    Trace : TLC validates every recording against the trace spec   -> list of rejected lines
    classify rejections against known_findings.json, write evidence, exit code

Exit codes: 0 property held on everything explored (known findings are printed),
1 a VIOLATION line was printed, 2 the machinery itself failed (never a verdict).
"""
import json
import os
import random
import re
import shutil
import subprocess
import sys
import time

VERIF = os.path.dirname(os.path.dirname(os.path.abspath(__file__)))
REPO = os.environ.get("VERIF_REPO", "/repo")
TLA_CP = "/opt/veriftools/tla/tla2tools.jar:/opt/veriftools/tla/CommunityModules-deps.jar"
GOENV = {"GOFLAGS": "-mod=mod", "GOPROXY": "off", "GOSUMDB": "off", "GOTOOLCHAIN": "local"}


class MachineryError(Exception):
    """Something in the machinery failed: exit 2, never a violation."""


def log(*a):
    print(*a, flush=True)


class Run:
    def __init__(self, pid, tier, seed, level):
        self.pid = pid
        self.tier = tier
        self.seed = seed
        self.level = level
        self.t0 = time.time()
        # one scratch directory per (property, tier): quick and thorough runs may overlap
        self.out = os.path.join(VERIF, "out", "%s-%s%s" % (pid, tier, os.environ.get("VERIF_OUT_TAG", "")))
        shutil.rmtree(self.out, ignore_errors=True)
        os.makedirs(self.out)
        os.makedirs(os.path.join(VERIF, "out", "replay"), exist_ok=True)
        import glob
        for old in glob.glob(os.path.join(VERIF, "out", "replay", "%s-%s-%d-*.json" % (pid, tier, seed))):
            os.remove(old)      # replay files of an earlier run with the same (property, tier, seed)
        os.makedirs(os.path.join(VERIF, "out", "bin"), exist_ok=True)
        self.states = 0          # distinct states over all TLC runs
        self.transitions = 0     # generated states over all TLC runs
        self.mc_runs = []        # per-run summaries
        self.traces_ok = 0       # reset-delimited recordings accepted by TLC
        self.traces_total = 0
        self.notrun = 0
        self.events = 0
        self.distinct_nontrivial = 0
        self.rule = ""
        self.samples = []
        self.assumptions = []
        self.bounds = {}
        self.drift = []
        self.coverage_zero = []
        self.known_seen = {}     # finding id -> count
        self.violations = []     # (replay_path, summary)
        self.extra = {}
        self.rng = random.Random(seed)

    # ------------------------------------------------------------------ build
    def build_harness(self):
        env = dict(os.environ)
        env.update(GOENV)
        hdir = os.path.join(VERIF, "harness")
        # the harness module resolves github.com/ctessum/geom to REPO (replace directive)
        # one binary per check, so that checks of different properties can run side by side
        os.makedirs(os.path.join(self.out, "bin"), exist_ok=True)
        binp = os.path.join(self.out, "bin", "drive")
        cmd = ["go", "build", "-tags", "verif", "-o", binp, "./cmd/drive"]
        if REPO != "/repo":
            # development aid: try the checks on a scratch worktree (seeded changes) without touching /repo
            alt = os.path.join(self.out, "alt.mod")
            with open(os.path.join(hdir, "go.mod")) as f:
                mod = f.read().replace("=> /repo", "=> " + REPO)
            with open(alt, "w") as f:
                f.write(mod)
            shutil.copy(os.path.join(hdir, "go.sum"), os.path.join(self.out, "alt.sum"))
            cmd[2:2] = ["-modfile=" + alt]
        p = subprocess.run(cmd, cwd=hdir, env=env, stdout=subprocess.PIPE, stderr=subprocess.STDOUT, text=True)
        if p.returncode != 0:
            raise MachineryError("harness build failed:\n" + p.stdout)
        self.drive_bin = binp
        return binp

    # ------------------------------------------------------------------ TLC
    def _stage_dir(self, name, specdirs):
        d = os.path.join(self.out, name)
        shutil.rmtree(d, ignore_errors=True)
        os.makedirs(d)
        for sd in ["common"] + list(specdirs):
            src = os.path.join(VERIF, "spec", sd)
            for f in os.listdir(src):
                if f.endswith(".tla") or f.endswith(".cfg"):
                    shutil.copy(os.path.join(src, f), d)
        return d

    def tlc(self, name, specdirs, module, cfg, env=None, workers=1, timeout=600, extra=None,
            simulate=None, depth=None, expect_violation=False, count=True, heap=None, dfs=False):
        """Run TLC on <module>.tla with <cfg> in a scratch copy.  Returns a dict with
        distinct, generated, depth, printed (list of PrintT lines), rc, out."""
        d = self._stage_dir(name, specdirs)
        e = dict(os.environ)
        if env:
            e.update({k: str(v) for k, v in env.items()})
        jopts = ["-XX:+UseParallelGC", "-Xss512m"]
        if heap:
            jopts.append("-Xmx" + heap)
        if dfs:
            jopts.append("-Dtlc2.tool.queue.IStateQueue=StateDeque")
        cmd = ["timeout", str(timeout), "java"] + jopts + ["-cp", TLA_CP, "tlc2.TLC",
               "-metadir", os.path.join(d, "md"), "-noGenerateSpecTE",
               "-workers", str(workers), "-config", cfg]
        if simulate:
            cmd += ["-simulate", simulate]
        if depth:
            cmd += ["-depth", str(depth)]
        if self.seed is not None and simulate:
            cmd += ["-seed", str(self.seed)]
        if extra:
            cmd += extra
        cmd.append(module)
        t = time.time()
        p = subprocess.run(cmd, cwd=d, env=e, stdout=subprocess.PIPE, stderr=subprocess.STDOUT, text=True)
        out = p.stdout
        with open(os.path.join(d, "tlc.log"), "w") as f:
            f.write(out)
        res = {"rc": p.returncode, "out": out, "dir": d, "wall_s": round(time.time() - t, 2),
               "distinct": 0, "generated": 0, "depth": 0, "name": name}
        m = re.findall(r"(\d+) states generated, (\d+) distinct states found", out)
        if m:
            res["generated"], res["distinct"] = int(m[-1][0]), int(m[-1][1])
        m = re.findall(r"The depth of the complete state graph search is (\d+)", out)
        if m:
            res["depth"] = int(m[-1])
        res["violated"] = ("is violated" in out) or ("Error: Deadlock reached" in out)
        if p.returncode == 124:
            raise MachineryError("TLC timed out in stage %s (see %s/tlc.log)" % (name, d))
        if res["violated"] and not expect_violation:
            raise MachineryError("TLC reported a property violation of the *model* in stage %s; "
                                 "see %s/tlc.log" % (name, d))
        if p.returncode != 0 and not res["violated"]:
            raise MachineryError("TLC failed in stage %s (rc=%d):\n%s" % (name, p.returncode, out[-3000:]))
        if count:
            self.states += res["distinct"]
            self.transitions += res["generated"]
            self.mc_runs.append({k: res[k] for k in ("name", "distinct", "generated", "depth", "wall_s")})
        log("  [tlc %-14s] %d generated, %d distinct, depth %d, %.1fs" %
            (name, res["generated"], res["distinct"], res["depth"], res["wall_s"]))
        return res

    def coverage_zeros(self, res):
        """Parse -coverage output: action/branch lines with a zero count."""
        zs = []
        for ln in res["out"].splitlines():
            m = re.match(r"^<(\w+) line (\d+), col .* of module (\w+)>: 0:0", ln)
            if m:
                zs.append("%s (%s:%s)" % (m.group(1), m.group(3), m.group(2)))
        self.coverage_zero += zs
        return zs

    # ------------------------------------------------------------------ harness
    def drive(self, args, timeout=1200, env=None):
        e = dict(os.environ)
        e["VERIF_SEED"] = str(self.seed)
        e["VERIF_BADFILE"] = os.path.join(self.out, "badcount")
        if env:
            e.update({k: str(v) for k, v in env.items()})
        cmd = ["timeout", str(timeout), self.drive_bin] + [str(a) for a in args]
        t = time.time()
        p = subprocess.run(cmd, cwd=self.out, env=e, stdout=subprocess.PIPE, stderr=subprocess.PIPE, text=True)
        if p.returncode != 0:
            raise MachineryError("drive %s failed rc=%d\n%s\n%s" % (args, p.returncode, p.stdout[-2000:], p.stderr[-3000:]))
        log("  [drive %s] %.1fs %s" % (" ".join(str(a) for a in args[:3]), time.time() - t, p.stdout.strip()[-200:]))
        return p.stdout

    # ------------------------------------------------------------------ trace validation
    def validate(self, name, specdirs, module, cfg, trace_path, expected_cases=None, timeout=1800,
                 env=None, heap=None):
        """Validate an NDJSON recording with TLC (reject-and-skip idiom, TraceIO.tla).
        Returns (fails, lines) where fails is the list of rejected 1-based line numbers."""
        with open(trace_path) as f:
            lines = f.read().splitlines()
        if len(lines) == 0:
            raise MachineryError("empty trace " + trace_path)
        # cases the sandbox did not run (after repeated confirmed hangs / crashes, sandbox.go): left out of the validation
        if any('"ev":"notrun"' in ln for ln in lines):
            kept, block, skip, dropped = [], [], False, 0
            for ln in lines + [None]:
                if ln is None or '"ev":"reset"' in ln or '"ev": "reset"' in ln:
                    if block:
                        if skip:
                            dropped += 1
                        else:
                            kept += block
                    block, skip = [], False
                if ln is not None:
                    block.append(ln)
                    if '"ev":"notrun"' in ln:
                        skip = True
            lines = kept
            trace_path = trace_path + ".ran"
            with open(trace_path, "w") as f:
                f.write("\n".join(lines) + "\n")
            self.notrun += dropped
            if expected_cases is not None:
                expected_cases -= dropped
            log("  [%s] %d cases were not run after repeated hangs or crashes of the real code" % (name, dropped))
        n = len(lines)
        nreset = sum(1 for ln in lines if '"ev":"reset"' in ln or '"ev": "reset"' in ln)
        if expected_cases is not None and nreset != expected_cases:
            raise MachineryError("dead driver: %d recordings in %s, %d cases were generated" %
                                 (nreset, trace_path, expected_cases))
        ev = {"VERIF_TRACE": trace_path}
        if env:
            ev.update(env)
        res = self.tlc(name, specdirs, module, cfg, env=ev, workers=1, timeout=timeout, heap=heap)
        m = re.findall(r'<<\s*"FAILS",\s*<<(.*?)>>\s*>>', res["out"].replace("\n", " "))
        if not m:
            raise MachineryError("trace validation printed no FAILS tuple (%s/tlc.log)" % res["dir"])
        body = m[-1].strip()
        fails = [int(x) for x in body.split(",")] if body else []
        # the chain must have consumed the whole trace: one state per consumed line or skipped block
        m2 = re.findall(r'<<"CONSUMED", (\d+)>>', res["out"])
        if not m2 or int(m2[-1]) != n + 1:
            raise MachineryError("trace validation stopped early (cursor %s of %d) in %s" % (m2[-1:] or "?", n, res["dir"]))
        self.traces_total += nreset
        self.events += n - nreset
        # count accepted recordings: those whose block has no failing line
        bad_cases = set()
        if fails:
            starts = [i + 1 for i, ln in enumerate(lines) if '"ev":"reset"' in ln or '"ev": "reset"' in ln]
            import bisect
            for fl in fails:
                bad_cases.add(bisect.bisect_right(starts, fl) - 1)
        self.traces_ok += nreset - len(bad_cases)
        return fails, lines

    @staticmethod
    def case_block(lines, failline):
        """Return the lines of the reset-delimited block containing 1-based line number failline."""
        i = failline - 1
        s = i
        while s > 0 and '"ev":"reset"' not in lines[s].replace('": "', '":"'):
            s -= 1
        e = i + 1
        while e < len(lines) and '"ev":"reset"' not in lines[e].replace('": "', '":"'):
            e += 1
        return [json.loads(x) for x in lines[s:e]], i - s

    # ------------------------------------------------------------------ findings / verdict
    def load_known(self):
        p = os.path.join(VERIF, "known_findings.json")
        if not os.path.exists(p):
            return []
        with open(p) as f:
            return [k for k in json.load(f) if k.get("property") == self.pid and k.get("status") == "known"]

    def report_failure(self, block, idx, classify, note=""):
        """block = events of the failing recording, idx = index of rejected event in block.
        classify(block, idx) returns the id of a known finding or None."""
        known = {k["id"]: k for k in self.load_known()}
        fid = classify(block, idx) if classify else None
        if fid is not None and fid in known:
            self.known_seen[fid] = self.known_seen.get(fid, 0) + 1
            return
        k = len(self.violations)
        path = os.path.join(VERIF, "out", "replay", "%s-%s-%d-%d.json" % (self.pid, self.tier, self.seed, k))
        with open(path, "w") as f:
            json.dump({"property": self.pid, "tier": self.tier, "seed": self.seed, "rejected_index": idx,
                       "note": note, "recording": block}, f)
        ev = block[idx]
        brief = {k: v for k, v in ev.items() if not isinstance(v, (list, dict))} if isinstance(ev, dict) else ev
        self.violations.append((path, (json.dumps(brief) + " " + note)[:400]))

    def finish(self):
        wall = round(time.time() - self.t0, 2)
        known = {k["id"]: k for k in self.load_known()}
        for fid, cnt in sorted(self.known_seen.items()):
            log("KNOWN-FINDING: property=%s %s: %s (re-observed %d times)" % (self.pid, fid, known[fid]["what"], cnt))
        cov = {
            "states": self.states, "transitions": self.transitions,
            "traces_validated_against_impl": self.traces_ok,
            "traces_recorded": self.traces_total,
            "evaluations": self.events,
            "distinct_nontrivial": self.distinct_nontrivial,
            "rule": self.rule,
            "samples": self.samples[:8] if self.samples else [],
            "tlc_runs": self.mc_runs,
            "bounds": dict(self.bounds, **({"cases_not_run_after_repeated_hangs": self.notrun} if self.notrun else {})),
            "coverage_zero_actions": self.coverage_zero,
            "model_drift": self.drift,
            "known_findings_reobserved": self.known_seen,
        }
        cov.update(self.extra)
        ev = {"property_id": self.pid, "tier": self.tier, "seed": self.seed, "level": self.level,
              "coverage": cov, "assumptions": self.assumptions, "wall_s": wall,
              "violations": len(self.violations)}
        evdir = os.path.join(VERIF, "evidence") if REPO == "/repo" else self.out   # trial runs on a scratch tree leave no evidence
        ext = self.pid.startswith("X")      # extension family (DESIGN.md 9.7): not one of the listed properties
        if ext and REPO == "/repo":
            evdir = os.path.join(VERIF, "evidence_ext")
        os.makedirs(evdir, exist_ok=True)
        with open(os.path.join(evdir, self.pid + ".json"), "w") as f:
            json.dump(ev, f, indent=1, sort_keys=True)
            f.write("\n")
        for path, summ in self.violations[:20]:
            if ext:
                log("DEVIATION extension=%s replay=%s  # %s" % (self.pid, path, summ))
            else:
                log("VIOLATION property=%s replay=%s  # %s" % (self.pid, path, summ))
        if len(self.violations) > 20:
            log("... %d more violations" % (len(self.violations) - 20))
        log("%s %s seed=%d: %d TLC states, %d recordings validated (%d events), %d violations, %.1fs" %
            (self.pid, self.tier, self.seed, self.states, self.traces_ok, self.events, len(self.violations), wall))
        return 1 if self.violations else 0


def write_ndjson(path, objs):
    with open(path, "w") as f:
        for o in objs:
            f.write(json.dumps(o, separators=(",", ":")) + "\n")


def read_ndjson(path):
    with open(path) as f:
        return [json.loads(x) for x in f if x.strip()]


def _gen(self, name, specdirs, module, cfg, out_path, env=None, timeout=900, simulate=None, depth=None, workers=1, require=None):
    """Run a generator spec: every line TLC prints that is a quoted JSON object is one case."""
    res = self.tlc(name, specdirs, module, cfg, env=env, workers=workers, timeout=timeout,
                   simulate=simulate, depth=depth)
    cases = []
    seen = set()
    for ln in res["out"].splitlines():
        if ln.startswith('"{') or ln.startswith('"['):
            try:
                s = json.loads(ln)
            except Exception:
                continue
            if s in seen:
                continue
            seen.add(s)
            cases.append(s)
    if not cases:
        raise MachineryError("generator %s emitted zero cases (%s/tlc.log)" % (name, res["dir"]))
    with open(out_path, "w") as f:
        for s in cases:
            f.write(s + "\n")
    # a histogram of the generated cases by their discrete top-level fields goes into the evidence: a sub-family that
    # thinning has emptied shows up as a missing key (and a family may insist on some keys through `require`)
    hist = {}
    for s in cases:
        try:
            c = json.loads(s)
        except Exception:
            continue
        if not isinstance(c, dict):
            continue
        key = [str(c.get("kind", "?"))]
        for f in ("ml", "sh", "api", "recv", "op", "ta", "tb", "opt", "valid"):
            if f in c and isinstance(c[f], (str, bool, int)):
                key.append("%s=%s" % (f, c[f]))
        if "off" in c:
            key.append("far")
        if "twin" in c:
            key.append("twin")
        k = " ".join(key)
        hist[k] = hist.get(k, 0) + 1
    self.extra.setdefault("case_histogram", {})[name] = dict(sorted(hist.items())[:60])
    for need in (require or []):
        if not any(need in k for k in hist):
            raise MachineryError("generator %s emitted no case of the family '%s' (thinned away?)" % (name, need))
    log("  [gen %s] %d cases" % (name, len(cases)))
    return len(cases)


Run.gen = _gen

"""C18 - OSM extraction is the least referentially closed set, independent of goroutine scheduling."""
import json
import os
import re
import vlib

LEVEL = "model_checking"
SPEC = ["C18_OSMExtract"]
KEEPS = ["tags", "bounds", "all"]


def cfg(path, w, keep, docs, gen=False, done_only=False, liveness=True):
    with open(path, "w") as f:
        f.write("SPECIFICATION %s\nCHECK_DEADLOCK FALSE\nCONSTANTS\n  W = %d\n  KEEP = \"%s\"\n  Docs <- %s\n" %
                ("GenSpec" if gen else "Spec", w, keep, docs))
        if gen:
            f.write("  EmitDoneOnly = %s\nINVARIANT Emit\n" % ("TRUE" if done_only else "FALSE"))
            if not done_only:
                f.write("VIEW GenView\n")
        else:
            f.write("INVARIANT ResultOK\nINVARIANT Sound\nINVARIANT CheckOK\nINVARIANT NeedSound\n")
            if liveness:
                f.write("PROPERTY Terminates\n")


def maximal(cases):
    """drop schedule prefixes that are proper prefixes of another emitted schedule of the same document"""
    seen = set()
    out = []
    for c in sorted(cases, key=lambda c: -len(c["sched"])):
        dk = json.dumps([c["w"], c["keep"], c["doc"]], sort_keys=True)
        sk = tuple((tuple(s["o"]), s["a"]) for s in c["sched"])
        if (dk, sk) in seen:
            continue
        for i in range(1, len(sk) + 1):
            seen.add((dk, sk[:i]))
        out.append(c)
    return out


def classify(block, idx):
    return None


def run(run):
    quick = run.tier == "quick"
    out = run.out
    # ---- R2 |= R1 for every interleaving
    docs = "DocsQuick" if quick else "DocsThorough"
    for keep in KEEPS:
        for w in ([1, 2] if quick else [1, 2, 3]):
            if w == 3 and keep == "bounds":
                d = "DocsQuick"
            else:
                d = docs
            p = os.path.join(out, "MC_%s_%d.cfg" % (keep, w))
            cfg(p, w, keep, d, liveness=(w < 3))
            r = run.tlc("mc_%s_w%d" % (keep, w), SPEC, "OSMExtractMC", p, workers=8, timeout=3000,
                        extra=["-coverage", "1"] if (not quick and w == 2 and keep == "bounds") else None)
            run.coverage_zeros(r)
    # ---- schedules
    cases = []
    for keep in KEEPS:
        p = os.path.join(out, "Gen_%s.cfg" % keep)
        cfg(p, 2, keep, "CuratedSmall" if quick else "Curated", gen=True)
        cp = os.path.join(out, "prefix_%s.ndjson" % keep)
        run.gen("gen_prefix_%s" % keep, SPEC, "OSMExtractGen", p, cp, workers=4, timeout=1800)
        cases += maximal(vlib.read_ndjson(cp))
        for w in ([2] if quick else [1, 2, 3]):
            p = os.path.join(out, "Sim_%s_%d.cfg" % (keep, w))
            cfg(p, w, keep, docs, gen=True, done_only=True)
            cp = os.path.join(out, "sim_%s_%d.ndjson" % (keep, w))
            run.gen("sim_%s_w%d" % (keep, w), SPEC, "OSMExtractGen", p, cp, workers=1, timeout=1800,
                    simulate="num=%d" % (120 if quick else 1500), depth=400)
            cases += vlib.read_ndjson(cp)
    # every curated document is exercised under every keep function: its one complete single-worker schedule (gated) and,
    # below, free-running repetitions that are not thinned
    curated = []
    for keep in KEEPS:
        p = os.path.join(out, "GenC_%s.cfg" % keep)
        cfg(p, 1, keep, "Curated", gen=True, done_only=True)
        cp = os.path.join(out, "curated_%s.ndjson" % keep)
        run.gen("gen_curated_%s" % keep, SPEC, "OSMExtractGen", p, cp, workers=1, timeout=1800)
        curated += vlib.read_ndjson(cp)
    # deep reference chains ("transitively": one more pass per level), selected by tag from the far end
    p = os.path.join(out, "GenD.cfg")
    cfg(p, 1, "tags", "DeepQuick" if quick else "DeepThorough", gen=True, done_only=True)
    cp = os.path.join(out, "deep.ndjson")
    run.gen("gen_deep", SPEC, "OSMExtractGen", p, cp, workers=1, timeout=1800)
    deep = vlib.read_ndjson(cp)
    if not deep:
        raise vlib.MachineryError("no deep-chain schedule was generated")
    curated += deep
    cases += curated
    for c in cases:
        c["mode"] = "gated"
    # free-running repetitions of the documents TLC explored (distinct documents only)
    seen = set()
    free = []
    for c in cases:
        k = json.dumps([c["keep"], c["doc"]], sort_keys=True)
        if k in seen:
            continue
        seen.add(k)
        free.append({"mode": "free", "w": 2, "keep": c["keep"], "doc": c["doc"], "runs": 3 if quick else 20, "procs": [1, 2, 4, 16]})
    if quick:
        free = free[:: max(1, len(free) // 60)]
    cur_free = [{"mode": "free", "w": 2, "keep": c["keep"], "doc": c["doc"], "runs": 3 if quick else 20, "procs": [1, 2, 4, 16]} for c in curated]
    free = cur_free + [f for f in free if json.dumps([f["keep"], f["doc"]], sort_keys=True) not in
                       set(json.dumps([c["keep"], c["doc"]], sort_keys=True) for c in cur_free)]
    allcases = cases + free
    cpath = os.path.join(out, "cases.ndjson")
    vlib.write_ndjson(cpath, allcases)
    tr1 = os.path.join(out, "trace_replay.ndjson")
    run.drive(["c18", "replay", cpath, tr1], timeout=6000)
    nrand = 60 if quick else 1500
    tr2 = os.path.join(out, "trace_random.ndjson")
    run.drive(["c18", "random", nrand, tr2], timeout=6000)
    run.bounds = {"W": [1, 2] if quick else [1, 2, 3], "docs": docs, "gated_schedules": len(cases), "free_docs": len(free),
                  "random_docs": nrand}
    # ---- validate: one TLC run per (W, keep)
    groups = {}
    total = 0
    for tr in (tr1, tr2):
        cur = None
        with open(tr) as f:
            for ln in f:
                if '"ev":"reset"' in ln:
                    c = json.loads(ln)
                    cur = (c["w"] if c["mode"] == "gated" else 2, c["keep"])
                    total += 1
                groups.setdefault(cur, []).append(ln)
    if total != len(allcases) + nrand:
        raise vlib.MachineryError("dead driver: %d recordings for %d cases" % (total, len(allcases) + nrand))
    driftsum = 0
    ntriv = set()
    nresults = 0
    for (w, keep), lns in sorted(groups.items()):
        name = "trace_%s_w%d" % (keep, w)
        tp = os.path.join(out, name + ".ndjson")
        with open(tp, "w") as f:
            f.writelines(lns)
        cp = os.path.join(out, name + ".cfg")
        with open(cp, "w") as f:
            f.write("SPECIFICATION TraceSpec\nINVARIANT Report\nCHECK_DEADLOCK FALSE\nCONSTANTS\n  W = %d\n  KEEP = \"%s\"\n  Docs = {}\n" % (w, keep))
        fails, lines = run.validate(name, SPEC, "OSMExtractTrace", cp, tp, timeout=3000)
        m = re.findall(r'<<"DRIFT", (\d+)>>', open(os.path.join(out, name, "tlc.log")).read())
        if m:
            driftsum += int(m[-1])
        for fl in fails:
            block, idx = run.case_block(lines, fl)
            run.report_failure(block, idx, classify)
        # non-trivial: a gated recording in which two different workers' steps interleave, or a free run with procs > 1
        blk = []
        for ln in lines + ['{"ev":"reset"}']:
            if '"ev":"reset"' in ln:
                if blk:
                    steps = [tuple(e["o"]) for e in blk[1:] if e.get("ev") == "step" and e["a"] not in ("Take", "PassEnd")]
                    switches = sum(1 for a, b in zip(steps, steps[1:]) if a != b)
                    nobj = len(blk[0].get("doc", {}).get("order", []))
                    if switches > nobj or (blk[0].get("mode") == "free" and nobj >= 3):
                        ntriv.add(json.dumps([blk[0].get("doc"), blk[0].get("keep"), steps]))
                    nresults += sum(1 for e in blk[1:] if e.get("ev") == "result")
                blk = []
            blk.append(json.loads(ln))
        if not run.samples:
            run.samples = [json.loads(x) for x in lines[:6]]
    run.extra["r2_drift_recordings"] = driftsum
    run.extra["results_judged"] = nresults
    if driftsum:
        run.drift.append("%d gated recordings left the R2 model (informational; verdicts rest on R1)" % driftsum)
    run.distinct_nontrivial = len(ntriv)
    run.rule = ("(a) TLC breadth-first prefixes reaching every distinct model state (maximal ones) and TLC -simulate complete "
                "schedules, replayed by parking the real worker goroutines at the verif yield points and releasing one "
                "lock-delimited step at a time; (b) the same documents run freely under GOMAXPROCS 1/2/4/16; (c) seeded random "
                "documents of up to 41 objects, gated with random schedules and free-running.  Non-trivial = a gated recording "
                "with more worker switches than objects, or a free-running recording of a document with >= 3 objects; "
                "distinct = distinct (document, keep, step order)")
    run.assumptions = ["schedules are explored at the granularity of the hook points (lock-delimited steps)",
                       "OSM XML input only (no PBF writer is available offline); PBF shares extract() with XML"]


def replay(run, path):
    with open(path) as f:
        rec = json.load(f)
    block = rec["recording"]
    hd = dict(block[0])
    hd.pop("ev", None)
    hd.pop("case", None)
    if hd.get("mode") == "gated":
        hd["sched"] = [{"o": e["o"], "a": e["a"]} for e in block[1:] if e.get("ev") == "step"]
    cpath = os.path.join(run.out, "cases.ndjson")
    vlib.write_ndjson(cpath, [hd])
    tr = os.path.join(run.out, "trace_replay.ndjson")
    run.drive(["c18", "replay", cpath, tr])
    cp = os.path.join(run.out, "Trace.cfg")
    with open(cp, "w") as f:
        f.write("SPECIFICATION TraceSpec\nINVARIANT Report\nCHECK_DEADLOCK FALSE\nCONSTANTS\n  W = %d\n  KEEP = \"%s\"\n  Docs = {}\n" % (hd.get("w", 2), hd["keep"]))
    fails, lines = run.validate("trace_replay", SPEC, "OSMExtractTrace", cp, tr, expected_cases=1)
    for fl in fails:
        block, idx = run.case_block(lines, fl)
        run.report_failure(block, idx, classify)
    run.samples = [json.loads(x) for x in lines[:5]]
    run.distinct_nontrivial = 1
    run.rule = "replay of one recorded extraction"

"""C16 - shapefile write followed by read returns the same geometries and attributes."""
import json
import os
import vlib

LEVEL = "model_checking"
SPEC = ["C16_Shapefile"]


def classify(block, idx):
    return None


def run(run):
    quick = run.tier == "quick"
    out = run.out
    mr = 2 if quick else 3
    p = os.path.join(out, "MC.cfg")
    with open(p, "w") as f:
        f.write("SPECIFICATION Spec\nCHECK_DEADLOCK FALSE\nCONSTANTS\n  Records <- MCRecords\n  MaxRecs = %d\nINVARIANT Fifo\nINVARIANT ReadsAll\n" % mr)
    r = run.tlc("mc_queue", SPEC, "ShapefileMC", p, workers=8, timeout=3000, extra=["-coverage", "1"] if not quick else None)
    run.coverage_zeros(r)
    p = os.path.join(out, "Gen.cfg")
    with open(p, "w") as f:
        f.write("SPECIFICATION GenSpec\nCHECK_DEADLOCK FALSE\nCONSTANTS\n  Records <- MCRecords\n  MaxRecs = %d\n  EmitAll = FALSE\nINVARIANT Emit\n" % (2 if quick else 2))
    cp = os.path.join(out, "cases.ndjson")
    ncases = run.gen("gen", SPEC, "ShapefileGen", p, cp, workers=4, timeout=3000)
    tr1 = os.path.join(out, "trace_replay.ndjson")
    run.drive(["c16", "replay", cp, tr1], timeout=3000)
    nrand = 60 if quick else 1500
    tr2 = os.path.join(out, "trace_random.ndjson")
    run.drive(["c16", "random", nrand, tr2], timeout=3000)
    run.bounds = {"MaxRecs": mr, "behaviours": ncases, "random_files": nrand}
    tcfg = os.path.join(out, "Trace.cfg")
    with open(tcfg, "w") as f:
        f.write("SPECIFICATION TraceSpec\nINVARIANT TReport\nCHECK_DEADLOCK FALSE\nCONSTANTS\n  Records = 0\n  MaxRecs = 0\n")
    ntriv = set()
    for name, tr, exp in (("trace_replay", tr1, ncases), ("trace_random", tr2, nrand)):
        fails, lines = run.validate(name, SPEC, "ShapefileTrace", tcfg, tr, expected_cases=exp, timeout=3000)
        for fl in fails:
            block, idx = run.case_block(lines, fl)
            run.report_failure(block, idx, classify)
        blk = []
        for ln in lines + ['{"ev":"reset"}']:
            if '"ev":"reset"' in ln and blk:
                encs = [e for e in blk if e.get("ev") == "encode"]
                # non-trivial: at least two records, or a record whose stored form differs from what was written
                if len(encs) >= 2 or any(e["r"]["g"]["t"] in ("LineString", "Bounds", "nil") for e in encs):
                    ntriv.add(json.dumps([blk[1].get("kind"), blk[1].get("api"), [e["r"] for e in encs]]))
                blk = []
            blk.append(json.loads(ln))
        if not run.samples:
            run.samples = [json.loads(x) for x in lines[:7]]
    run.distinct_nontrivial = len(ntriv)
    run.rule = ("every behaviour create . encode* . close . open . decode* of the queue model with <= MaxRecs records per file, for six "
                "geometry kinds x both APIs x a pool of geometries (part/ring vectors, closed and unclosed rings, nil) and attribute "
                "edge values; seeded random files of up to 60 records. Non-trivial = a file with >= 2 records or a record whose stored "
                "form differs from the written one; distinct = distinct (kind, api, record sequence)")
    run.assumptions = ["coordinates are six finite float64 bit patterns (ids); strings have no leading/trailing blanks (other white space is kept); values fit the field widths",
                       "decoding uses a struct with an interface geometry field and differently cased names/tags"]


def replay(run, path):
    with open(path) as f:
        rec = json.load(f)
    block = rec["recording"]
    ops = []
    for e in block[1:]:
        if e["ev"] == "create":
            ops.append({"op": "create", "kind": e["kind"], "api": e["api"]})
        elif e["ev"] == "encode":
            ops.append({"op": "encode", "r": e["r"]})
        else:
            ops.append({"op": e["ev"]})
    cp = os.path.join(run.out, "cases.ndjson")
    vlib.write_ndjson(cp, [{"kind": "shp", "ops": ops}])
    tr = os.path.join(run.out, "trace_replay.ndjson")
    run.drive(["c16", "replay", cp, tr])
    tcfg = os.path.join(run.out, "Trace.cfg")
    with open(tcfg, "w") as f:
        f.write("SPECIFICATION TraceSpec\nINVARIANT TReport\nCHECK_DEADLOCK FALSE\nCONSTANTS\n  Records = 0\n  MaxRecs = 0\n")
    fails, lines = run.validate("trace_replay", SPEC, "ShapefileTrace", tcfg, tr, expected_cases=1)
    for fl in fails:
        block, idx = run.case_block(lines, fl)
        run.report_failure(block, idx, classify)
    run.samples = [json.loads(x) for x in lines[:6]]
    run.distinct_nontrivial = 2
    run.rule = "replay of one recorded behaviour"

"""C13 - Simplify terminates, keeps endpoints, stays within tolerance and adds no self-intersection."""
import json
import os
import vlib

LEVEL = "model_checking"
SPEC = ["C13_Simplify"]


KNOWN_LINES = set()


def classify(block, idx):
    return None


def parse_drift(run, name):
    import re
    txt = open(os.path.join(run.out, name, "tlc.log")).read().replace("\n", " ")
    m = re.findall(r'<<\s*"DRIFT",\s*<<(.*?)>>\s*>>', txt)
    if not m or not m[-1].strip():
        return []
    return [int(x) for x in m[-1].split(",")]


def run(run):
    quick = run.tier == "quick"
    out = run.out
    p = os.path.join(out, "MC.cfg")
    with open(p, "w") as f:
        f.write("SPECIFICATION Spec\nCHECK_DEADLOCK FALSE\nCONSTANTS\n  GridN = 2\n  MaxLen = %d\n  Curves <- MCCurves\n  Tol2s <- MCTol2s\n"
                "INVARIANT OutBounded\nINVARIANT ResultOK\nINVARIANT SimplePreserved\nPROPERTY Terminates\n" % (4 if quick else 5))
    r = run.tlc("mc_simplify", SPEC, "SimplifyMC", p, workers=12, timeout=3000,
                extra=["-coverage", "1"] if not quick else None)
    run.coverage_zeros(r)
    k = dict(G1=2, L1=3, G2=3, L2=4, M2=24) if quick else dict(G1=2, L1=4, G2=3, L2=5, M2=40)
    p = os.path.join(out, "Gen.cfg")
    with open(p, "w") as f:
        f.write("SPECIFICATION GenSpec\nCHECK_DEADLOCK FALSE\nCONSTANTS\n" + "".join("  %s = %d\n" % kv for kv in k.items()))
    cp = os.path.join(out, "cases.ndjson")
    ncases = run.gen("gen", SPEC, "SimplifyGen", p, cp, workers=1, timeout=3000, require=["line", "poly", "multi", "sh="])
    tr1 = os.path.join(out, "trace_replay.ndjson")
    run.drive(["c13", "replay", cp, tr1], timeout=3000)
    nrand = 5000 if quick else 40000
    tr2 = os.path.join(out, "trace_random.ndjson")
    run.drive(["c13", "random", nrand, tr2], timeout=3000)
    run.bounds = dict(k, random=nrand, mc_maxlen=4 if quick else 5)
    tcfg = os.path.join(out, "Trace.cfg")
    with open(tcfg, "w") as f:
        f.write("SPECIFICATION TraceSpec\nINVARIANT Report\nCHECK_DEADLOCK FALSE\n")
    ntriv = set()
    driftsum = 0
    for name, tr, exp in (("trace_replay", tr1, ncases), ("trace_random", tr2, nrand)):
        fails, lines = run.validate(name, SPEC, "SimplifyTrace", tcfg, tr, expected_cases=exp, timeout=3000)
        dl = parse_drift(run, name)
        driftsum += len(dl)
        if dl and "r2_drift_sample" not in run.extra:
            run.extra["r2_drift_sample"] = [json.loads(lines[dl[0] - 2]), json.loads(lines[dl[0] - 1])]
        for fl in fails:
            block, idx = run.case_block(lines, fl)
            run.report_failure(block, idx, classify)
        hd = None
        for ln in lines:
            e = json.loads(ln)
            if e["ev"] == "reset":
                hd = e
            elif e["ev"] == "simplify" and hd is not None and hd.get("kind") == "line":
                # non-trivial: at least one vertex dropped and at least one interior vertex kept
                if e.get("out") == "ok" and 2 < len(e["res"]) < len(hd["curve"]):
                    ntriv.add(json.dumps([hd["curve"], hd["tol2"]]))
        if not run.samples:
            run.samples = [json.loads(x) for x in lines[2000:2004]] or [json.loads(x) for x in lines[:4]]
    if driftsum:
        run.drift.append("%d line-string results differ from the output of the R2 transcription (informational; the verdict "
                         "rests on R1 only)" % driftsum)
    run.extra["r2_drift_results"] = driftsum
    run.distinct_nontrivial = len(ntriv)
    run.rule = ("TLC enumerates every curve of <= L1 vertices on a 3x3 lattice, a thinned set of L2-vertex curves on a 4x4 lattice, "
                "closed rings and two-member multi-line strings, x squared tolerances {0,3,7}; seeded random (mostly simple) walks of "
                "4-45 vertices on lattices up to 100; non-trivial = a line case in which Simplify dropped a vertex and kept an interior "
                "one; distinct = distinct (curve, tolerance)")
    run.assumptions = ["integer lattice inputs (<= 100); squared tolerances are 0 or = 3 mod 4, so no exact tie d = tol exists",
                       "each call runs in a sandbox child: 4 s deadline (confirmed alone with 8 s), 3 GiB address space"]


def replay(run, path):
    with open(path) as f:
        rec = json.load(f)
    hd = dict(rec["recording"][0])
    hd.pop("ev", None)
    hd.pop("case", None)
    cp = os.path.join(run.out, "cases.ndjson")
    vlib.write_ndjson(cp, [hd])
    tr = os.path.join(run.out, "trace_replay.ndjson")
    run.drive(["c13", "replay", cp, tr])
    tcfg = os.path.join(run.out, "Trace.cfg")
    with open(tcfg, "w") as f:
        f.write("SPECIFICATION TraceSpec\nINVARIANT Report\nCHECK_DEADLOCK FALSE\n")
    fails, lines = run.validate("trace_replay", SPEC, "SimplifyTrace", tcfg, tr, expected_cases=1)
    for fl in fails:
        block, idx = run.case_block(lines, fl)
        run.report_failure(block, idx, classify)
    run.samples = [json.loads(x) for x in lines]
    run.distinct_nontrivial = 1
    run.rule = "replay of one recorded case"

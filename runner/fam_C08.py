"""C08 - every supported map projection inverts (reduced claim: structural word model + integer tolerance checks)."""
import json
import os
import vlib

LEVEL = "exploration"
SPEC = ["C08_RoundTrip"]


def classify(block, idx):
    return None


def run(run):
    quick = run.tier == "quick"
    out = run.out
    p = os.path.join(out, "MC.cfg")
    with open(p, "w") as f:
        f.write("SPECIFICATION Spec\nINVARIANT GeographicRoundTrip\nINVARIANT AnyPairRoundTrip\nCHECK_DEADLOCK FALSE\n")
    run.tlc("mc_pipeline_words", SPEC, "RoundTrip", p, workers=4, timeout=3000)
    p = os.path.join(out, "Gen.cfg")
    with open(p, "w") as f:
        f.write("SPECIFICATION GenSpec\nCHECK_DEADLOCK FALSE\n")
    cp = os.path.join(out, "cases0.ndjson")
    run.gen("gen", SPEC, "RoundTripGen", p, cp, workers=1, timeout=3000)
    base = vlib.read_ndjson(cp)
    ndraw = 3 if quick else 40
    cases = []
    for c in base:
        for k in range(ndraw):
            d = dict(c)
            d["vseed"] = k * 7 + 1
            cases.append(d)
    cpath = os.path.join(out, "cases.ndjson")
    vlib.write_ndjson(cpath, cases)
    tr1 = os.path.join(out, "trace_replay.ndjson")
    run.drive(["c08", "replay", cpath, tr1], timeout=3000)
    run.bounds = {"configurations": len(base), "parameter_draws_per_configuration": ndraw}
    tcfg = os.path.join(out, "Trace.cfg")
    with open(tcfg, "w") as f:
        f.write("SPECIFICATION TraceSpec\nINVARIANT TReport\nCHECK_DEADLOCK FALSE\n")
    fails, lines = run.validate("trace_replay", SPEC, "RoundTripTrace", tcfg, tr1, expected_cases=len(cases), timeout=3000)
    for fl in fails:
        block, idx = run.case_block(lines, fl)
        run.report_failure(block, idx, classify)
    ntriv = set()
    hd = None
    for ln in lines:
        e = json.loads(ln)
        if e["ev"] == "reset":
            hd = e
        elif e["ev"] == "rt" and hd["cfg"]["proj"] != "longlat":
            ntriv.add(e["p4"])
    run.distinct_nontrivial = len(ntriv)
    run.samples = [json.loads(x) for x in lines[10:14]]
    run.rule = ("the configuration matrix (8 projections x sphere/ellipsoid x datum none/WGS84-equivalent/3-/7-parameter x 3 units x prime "
                "meridian x hemisphere) enumerated by TLC, each instantiated with seeded parameters (zones 1-60, parallels, origins, every "
                "built-in ellipsoid, datum and prime-meridian name) and 12-25 positions of the usable region; non-trivial = a projected "
                "configuration; distinct = distinct definition string")
    run.assumptions = ["reduced claim: the tolerances are integer inequalities over deviations computed by the harness from the real "
                       "code (no external numeric oracle); TLA+ contributes the configuration matrix and the pipeline word model"]


def replay(run, path):
    with open(path) as f:
        rec = json.load(f)
    hd = dict(rec["recording"][0])
    hd.pop("ev", None)
    hd.pop("case", None)
    cp = os.path.join(run.out, "cases.ndjson")
    vlib.write_ndjson(cp, [hd])
    tr = os.path.join(run.out, "trace_replay.ndjson")
    run.drive(["c08", "replay", cp, tr])
    tcfg = os.path.join(run.out, "Trace.cfg")
    with open(tcfg, "w") as f:
        f.write("SPECIFICATION TraceSpec\nINVARIANT TReport\nCHECK_DEADLOCK FALSE\n")
    fails, lines = run.validate("trace_replay", SPEC, "RoundTripTrace", tcfg, tr, expected_cases=1)
    for fl in fails:
        block, idx = run.case_block(lines, fl)
        run.report_failure(block, idx, classify)
    run.samples = [json.loads(x) for x in lines]
    run.distinct_nontrivial = 2
    run.rule = "replay of one recorded case"

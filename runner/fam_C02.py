"""C02 - Within classifies points against polygons exactly (inside / outside / on edge)."""
import json
import os
import re
import vlib

LEVEL = "exploration"
SPEC = ["C02_Within"]


def classify(block, idx):
    return None


def run(run):
    quick = run.tier == "quick"
    out = run.out
    # R2 = R1 on every ring of the small lattice (the algorithm is right independent of floating point)
    for (g, lens) in ([(3, "{3}")] if quick else [(4, "{3}"), (3, "{4}")]):
        p = os.path.join(out, "MC_%d.cfg" % g)
        with open(p, "w") as f:
            f.write("SPECIFICATION Spec\nCHECK_DEADLOCK FALSE\nCONSTANTS\n  GridN = %d\n  RingLens = %s\n  Two = FALSE\nINVARIANT R2EqualsR1\n" % (g, lens))
        run.tlc("mc_within_%d_%s" % (g, lens.strip("{}")), SPEC, "Within", p, workers=12, timeout=3000)
    k = dict(GridN=3, M3=8, M4=300, M2R=400, MA=7) if quick else dict(GridN=4, M3=4, M4=100, M2R=3000, MA=60)
    p = os.path.join(out, "Gen.cfg")
    with open(p, "w") as f:
        f.write("SPECIFICATION GenSpec\nCHECK_DEADLOCK FALSE\nCONSTANTS\n  RingLens = {3}\n  Two = FALSE\n" + "".join("  %s = %d\n" % kv for kv in k.items()))
    cp = os.path.join(out, "cases.ndjson")
    ncases = run.gen("gen", SPEC, "WithinGen", p, cp, workers=1, timeout=3000, require=["agg", "poly"])
    tr1 = os.path.join(out, "trace_replay.ndjson")
    run.drive(["c02", "replay", cp, tr1], timeout=3000)
    nrand = 600 if quick else 20000
    tr2 = os.path.join(out, "trace_random.ndjson")
    run.drive(["c02", "random", nrand, tr2], timeout=3000)
    run.bounds = dict(k, random=nrand)
    tcfg = os.path.join(out, "Trace.cfg")
    with open(tcfg, "w") as f:
        f.write("SPECIFICATION TraceSpec\nINVARIANT Report\nCHECK_DEADLOCK FALSE\nCONSTANTS\n  GridN = 0\n  RingLens = {}\n  Two = FALSE\n")
    ntriv = 0
    nevals = 0
    drift = 0
    seen = set()
    for name, tr, exp in (("trace_replay", tr1, ncases), ("trace_random", tr2, nrand)):
        fails, lines = run.validate(name, SPEC, "WithinTrace", tcfg, tr, expected_cases=exp, timeout=3000)
        m = re.findall(r'<<"DRIFT", (\d+)>>', open(os.path.join(out, name, "tlc.log")).read())
        if m:
            drift += int(m[-1])
        for fl in fails:
            block, idx = run.case_block(lines, fl)
            run.report_failure(block, idx, classify)
        hd = None
        for ln in lines:
            e = json.loads(ln)
            if e["ev"] == "reset":
                hd = e
            elif e["ev"] == "within":
                nevals += len(e["res"])
                # non-trivial (polygon, point) pairs: the answer is OnEdge, or the point shares an ordinate with a vertex
                ys = set()
                for pg in hd["polys"]:
                    for r in pg:
                        for v in r:
                            ys.add(v[1])
                key = json.dumps(hd["polys"])
                for pt, r in zip(e["pts"], e["res"]):
                    if r == 2 or pt[1] in ys:
                        k2 = (key, pt[0], pt[1])
                        if k2 not in seen:
                            seen.add(k2)
                            ntriv += 1
        if not run.samples:
            run.samples = [json.loads(x) for x in lines[:4]]
    run.extra["point_classifications"] = nevals
    run.extra["r2_drift_events"] = drift
    if drift:
        run.drift.append("%d events where the real answers differ from the transcribed algorithm (informational)" % drift)
    run.distinct_nontrivial = ntriv
    run.rule = ("TLC enumerates (thinned) rings of 3-5 vertices over a (GridN+1)^2 half-integer lattice - degenerate, self-intersecting, "
                "clockwise, closed and unclosed all arise - plus two-ring polygons, two-member multi-polygons and aggregate receivers; "
                "the real code answers for every lattice point; seeded random polygons up to 2^14 (x 2^0/2^10/2^20) with adversarial "
                "query points. Non-trivial = a distinct (polygon, point) pair whose answer is OnEdge or whose point shares an ordinate "
                "with a vertex")
    run.assumptions = ["coordinates are small integers / half-integers or integers <= 2^14 times a power of two (exact arithmetic)"]


def replay(run, path):
    with open(path) as f:
        rec = json.load(f)
    hd = dict(rec["recording"][0])
    hd.pop("ev", None)
    hd.pop("case", None)
    cp = os.path.join(run.out, "cases.ndjson")
    vlib.write_ndjson(cp, [hd])
    tr = os.path.join(run.out, "trace_replay.ndjson")
    run.drive(["c02", "replay", cp, tr])
    tcfg = os.path.join(run.out, "Trace.cfg")
    with open(tcfg, "w") as f:
        f.write("SPECIFICATION TraceSpec\nINVARIANT Report\nCHECK_DEADLOCK FALSE\nCONSTANTS\n  GridN = 0\n  RingLens = {}\n  Two = FALSE\n")
    fails, lines = run.validate("trace_replay", SPEC, "WithinTrace", tcfg, tr, expected_cases=1)
    for fl in fails:
        block, idx = run.case_block(lines, fl)
        run.report_failure(block, idx, classify)
    run.samples = [json.loads(x) for x in lines]
    run.distinct_nontrivial = 2
    run.rule = "replay of one recorded case"

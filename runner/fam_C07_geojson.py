"""GeoJSON half of C07 (pipeline appended to fam_C07)."""
import json
import os
import re
import vlib

SPEC = ["C07_GeoJSONShape"]


def classify(block, idx):
    return None


def pipeline(run):
    quick = run.tier == "quick"
    out = run.out
    depth = 1 if quick else 2
    p = os.path.join(out, "GJ_MC.cfg")
    with open(p, "w") as f:
        f.write("SPECIFICATION Spec\nCHECK_DEADLOCK FALSE\nCONSTANTS\n  Depth = %d\n  Width = 2\nINVARIANT AcceptStable\n" % depth)
    run.tlc("mc_geojson_shape", SPEC, "GeoJSONShape", p, workers=8, timeout=3000)
    p = os.path.join(out, "GJ_Gen.cfg")
    with open(p, "w") as f:
        f.write("SPECIFICATION GenSpec\nCHECK_DEADLOCK FALSE\nCONSTANTS\n  Depth = %d\n  Width = 2\n" % depth)
    cp = os.path.join(out, "gj_cases.ndjson")
    ncases = run.gen("gen_geojson", SPEC, "GeoJSONShapeGen", p, cp, workers=1, timeout=3000)
    tr1 = os.path.join(out, "gj_trace_replay.ndjson")
    run.drive(["c07g", "replay", cp, tr1], timeout=3000)
    nrand = 400 if quick else 6000
    tr2 = os.path.join(out, "gj_trace_random.ndjson")
    run.drive(["c07g", "random", nrand, tr2], timeout=3000)
    run.bounds["geojson"] = {"depth": depth, "tlc_cases": ncases, "random": nrand}
    tcfg = os.path.join(out, "GJ_Trace.cfg")
    with open(tcfg, "w") as f:
        f.write("SPECIFICATION TraceSpec\nINVARIANT Report\nCHECK_DEADLOCK FALSE\nCONSTANTS\n  Depth = 0\n  Width = 0\n")
    drift = 0
    for name, tr, exp in (("gj_trace_replay", tr1, ncases), ("gj_trace_random", tr2, nrand)):
        fails, lines = run.validate(name, SPEC, "GeoJSONShapeTrace", tcfg, tr, expected_cases=exp, timeout=3000)
        m = re.findall(r'<<"DRIFT", (\d+)>>', open(os.path.join(out, name, "tlc.log")).read())
        if m:
            drift += int(m[-1])
        for fl in fails:
            block, idx = run.case_block(lines, fl)
            run.report_failure(block, idx, classify)
        n = sum(1 for ln in lines if '"ev":"reset"' in ln)
        run.distinct_nontrivial += len(set(ln for ln in lines if '"ev":"reset"' in ln and '"accepts":false' in ln or '"gjtext"' in ln or '"gjvalue"' in ln))
    run.extra["geojson_r2_drift"] = drift
    if drift:
        run.drift.append("%d GeoJSON documents accepted/rejected differently from the transcribed shape checks (informational)" % drift)
    run.rule += (" | GeoJSON: every coordinates tree one mutation away from a well-formed one, every tree of depth <= %d and width <= 2 "
                 "under nine type strings (TLC), typed Go values for FromGeoJSON, textual mutations and deep nesting up to 64 KiB" % depth)


def replay(run, path):
    with open(path) as f:
        rec = json.load(f)
    hd = dict(rec["recording"][0])
    hd.pop("ev", None)
    hd.pop("case", None)
    cp = os.path.join(run.out, "cases.ndjson")
    vlib.write_ndjson(cp, [hd])
    tr = os.path.join(run.out, "trace_replay.ndjson")
    run.drive(["c07g", "replay", cp, tr])
    tcfg = os.path.join(run.out, "GJ_Trace.cfg")
    with open(tcfg, "w") as f:
        f.write("SPECIFICATION TraceSpec\nINVARIANT Report\nCHECK_DEADLOCK FALSE\nCONSTANTS\n  Depth = 0\n  Width = 0\n")
    fails, lines = run.validate("trace_replay", SPEC, "GeoJSONShapeTrace", tcfg, tr, expected_cases=1)
    for fl in fails:
        block, idx = run.case_block(lines, fl)
        run.report_failure(block, idx, classify)
    run.samples = [json.loads(x) for x in lines]
    run.distinct_nontrivial = 1
    run.rule = "replay of one recorded case"

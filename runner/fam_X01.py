"""X01 - extension family (not one of the listed properties): package op's FixOrientation / Within / PointOnSurface."""
import json
import os
import vlib

LEVEL = "exploration"
SPEC = ["C03_Measures", "X01_OpProps"]


def run(run):
    quick = run.tier == "quick"
    out = run.out
    p = os.path.join(out, "Gen.cfg")
    with open(p, "w") as f:
        f.write("SPECIFICATION GenSpec\nCHECK_DEADLOCK FALSE\nCONSTANTS\n  MS = %d\n" % (9 if quick else 2))
    cp = os.path.join(out, "cases.ndjson")
    ncases = run.gen("gen", SPEC, "OpPropsGen", p, cp, workers=1, timeout=3000)
    tr = os.path.join(out, "trace_replay.ndjson")
    run.drive(["x01", "replay", cp, tr], timeout=3000)
    tcfg = os.path.join(out, "Trace.cfg")
    with open(tcfg, "w") as f:
        f.write("SPECIFICATION TraceSpec\nINVARIANT TReport\nCHECK_DEADLOCK FALSE\n")
    fails, lines = run.validate("trace_replay", SPEC, "OpPropsTrace", tcfg, tr, expected_cases=ncases, timeout=3000)
    for fl in fails:
        block, idx = run.case_block(lines, fl)
        run.report_failure(block, idx, None)
    run.distinct_nontrivial = sum(1 for ln in lines if '"ev":"reset"' in ln and '"kind":"fix"' in ln)
    run.samples = [json.loads(x) for x in lines[:2]]
    run.bounds = {"tlc_cases": ncases}
    run.rule = "catalogue of valid lattice polygons (with holes, concave, centroid outside) x closed spellings"
    run.assumptions = ["extension family: deviations are observations about package op, not violations of a listed property"]


def replay(run, path):
    with open(path) as f:
        rec = json.load(f)
    hd = dict(rec["recording"][0])
    hd.pop("ev", None)
    hd.pop("case", None)
    cp = os.path.join(run.out, "cases.ndjson")
    vlib.write_ndjson(cp, [hd])
    tr = os.path.join(run.out, "trace_replay.ndjson")
    run.drive(["x01", "replay", cp, tr])
    tcfg = os.path.join(run.out, "Trace.cfg")
    with open(tcfg, "w") as f:
        f.write("SPECIFICATION TraceSpec\nINVARIANT TReport\nCHECK_DEADLOCK FALSE\n")
    fails, lines = run.validate("trace_replay", SPEC, "OpPropsTrace", tcfg, tr, expected_cases=1)
    for fl in fails:
        block, idx = run.case_block(lines, fl)
        run.report_failure(block, idx, None)

"""C11 - R-tree search = brute-force scan after any history; tree stays balanced.
   (also serves C12 - nearest-neighbour answers - with Focus = "C12")"""
import json
import os
import vlib

LEVEL = "model_checking"
SPEC = ["C11_RTree"]

INV = {"C11": ["NoPanic", "SizeOK", "TreeOK", "LevelOK", "SearchOK"], "C12": ["NearestOK", "KNearestOK"]}


def mc_cfg(path, minc, maxc, pool, mult, focus, maxops=0, gen=False, emitlen=0):
    with open(path, "w") as f:
        f.write("SPECIFICATION %s\nCHECK_DEADLOCK FALSE\n" % ("GenSpec" if gen else "Spec"))
        f.write("CONSTANTS\n  MinC = %d\n  MaxC = %d\n  Boxes <- %s\n  Mult <- %s\n" % (minc, maxc, pool, mult))
        f.write("  Queries <- MCQueries\n  NNPts <- MCNNPts\n  Ks <- MCKs\n  MaxOps = %d\n" % maxops)
        if gen:
            f.write("  EmitLen = %d\nVIEW GenView\nINVARIANT Emit\n" % emitlen)
        else:
            for inv in INV[focus]:
                f.write("INVARIANT %s\n" % inv)
            if focus == "C11":
                f.write("PROPERTY DeleteOK\n")


def dedup_histories(cases):
    """Each history is replayed from scratch; events of a prefix that an earlier replay already
    recorded in full are recorded 'lite' (fullfrom).  Histories wholly covered are dropped."""
    covered = set()
    out = []
    for c in sorted(cases, key=lambda c: -len(c["ops"])):
        key = (c["minc"], c["maxc"], json.dumps(c["boxes"]))
        pre = []
        first_new = None
        for i, op in enumerate(c["ops"]):
            pre.append((op["op"], op["o"]))
            k = (key, tuple(pre))
            if k not in covered:
                if first_new is None:
                    first_new = i + 1
                covered.add(k)
        if first_new is not None:
            c = dict(c)
            c["fullfrom"] = first_new
            out.append(c)
    return out


def nontrivial(block):
    """a history is non-trivial if the real tree split (depth grew) and later shrank or lost a node (depth fell
    or an underflow happened: a delete that changed the node count by more than the removed entry)"""
    depths = [e["depth"] for e in block if e.get("full")]
    grew = any(b > a for a, b in zip(depths, depths[1:])) or (depths and depths[0] > 1)
    fell = any(b < a for a, b in zip(depths, depths[1:]))
    return grew and (fell or max(depths or [0]) >= 3)


def classify(block, idx):
    return None


def run_rtree(run, focus):
    quick = run.tier == "quick"
    out = run.out
    # ---- R2 |= R1, exhaustive
    mcs = [(2, 4, "Pool5", "Mult5")] if quick else [(2, 4, "PoolA", "MultA"), (2, 5, "PoolA", "MultA"), (3, 6, "PoolB", "MultB")]
    for (a, b, pool, mult) in mcs:
        cfg = os.path.join(out, "MC_%d_%d.cfg" % (a, b))
        maxops = 0 if pool != "PoolB" else 11
        mc_cfg(cfg, a, b, pool, mult, focus, maxops=maxops)
        run.tlc("mc_%d_%d_%s" % (a, b, pool), SPEC, "RTreeMC", cfg, workers=8, timeout=3000)
    # vacuity self-tests: the bounded model must reach three levels, collapse its root, and refill after draining
    # (TLC's -coverage exhausts the heap on this module before the first state, so reachability is asked for directly)
    wit = [("NeverThreeLevels", "INVARIANT", (2, 4, "PoolC", "MultC", 0)), ("NeverCollapses", "PROPERTY", (2, 4, "Pool5", "Mult5", 0)),
           ("NeverRefilled", "PROPERTY", (2, 4, "Pool5", "Mult5", 6))]
    for (nm, kind, (a, b, pool, mult, maxops)) in wit:
        cfg = os.path.join(out, "Wit_%s.cfg" % nm)
        with open(cfg, "w") as f:
            f.write("SPECIFICATION %s\nCHECK_DEADLOCK FALSE\nCONSTANTS\n  MinC = %d\n  MaxC = %d\n  Boxes <- %s\n  Mult <- %s\n" %
                    ("FillSpec" if pool == "PoolC" else "Spec", a, b, pool, mult))
            f.write("  Queries <- MCQueries\n  NNPts <- MCNNPts\n  Ks <- MCKs\n  MaxOps = %d\n%s %s\n" % (maxops, kind, nm))
        sim = dict(simulate="num=400", depth=16, workers=1) if pool == "PoolC" else dict(workers=8)
        r = run.tlc("wit_" + nm, SPEC, "RTreeMC", cfg, timeout=1200, expect_violation=True, count=False, **sim)
        if not r["violated"]:
            raise vlib.MachineryError("vacuity self-test failed: the bounded R-tree model never violates %s" % nm)
    run.extra["reachability_witnesses"] = [w[0] for w in wit]
    # ---- behaviours: cover of (operation, resulting state) pairs + simulation walks
    cases = []
    gens = [(2, 4, "Pool5", "Mult5")] if quick else [(2, 4, "PoolA", "MultA"), (2, 5, "Pool5", "Mult5")]
    for (a, b, pool, mult) in gens:
        cfg = os.path.join(out, "Gen_%d_%d.cfg" % (a, b))
        mc_cfg(cfg, a, b, pool, mult, focus, gen=True)
        p = os.path.join(out, "hist_%d_%d.ndjson" % (a, b))
        run.gen("gen_%d_%d_%s" % (a, b, pool), SPEC, "RTreeGen", cfg, p, workers=4, timeout=3000)
        cases += vlib.read_ndjson(p)
    cover = dedup_histories(cases)
    sims = [(2, 4, "PoolB", "MultB", 40, 40), (3, 6, "PoolC", "MultC", 60, 30), (2, 5, "PoolC", "MultC", 60, 30)]
    if not quick:
        sims = [(2, 4, "PoolB", "MultB", 60, 600), (3, 6, "PoolC", "MultC", 80, 400), (2, 5, "PoolC", "MultC", 80, 400),
                (3, 7, "PoolC", "MultC", 80, 300), (2, 4, "PoolC", "MultC", 80, 400)]
    walks = []
    for (a, b, pool, mult, depth, num) in sims:
        cfg = os.path.join(out, "Sim_%d_%d_%s.cfg" % (a, b, pool))
        mc_cfg(cfg, a, b, pool, mult, focus, gen=True, emitlen=depth)
        p = os.path.join(out, "walk_%d_%d_%s.ndjson" % (a, b, pool))
        run.gen("sim_%d_%d_%s" % (a, b, pool), SPEC, "RTreeGen", cfg, p, workers=1, timeout=1200,
                simulate="num=%d" % num, depth=depth)
        walks += vlib.read_ndjson(p)
    nrand = 30 if quick else 600
    run.bounds = {"mc": mcs, "cover": gens, "simulate": sims, "random_histories": nrand}
    # ---- replay on the real code
    # histories kept from earlier findings (regress/C11/*.json) are replayed in every tier
    import glob
    kept = []
    for fn in sorted(glob.glob(os.path.join(vlib.VERIF, "regress", "C11", "*.json"))):
        with open(fn) as f:
            kc = json.load(f)
        kc.pop("note", None)
        kept.append(kc)
    allcases = cover + walks + kept
    cpath = os.path.join(out, "cases.ndjson")
    vlib.write_ndjson(cpath, allcases)
    tr_replay = os.path.join(out, "trace_replay.ndjson")
    run.drive(["c11", "replay", cpath, tr_replay], timeout=3000)
    tr_rand = os.path.join(out, "trace_random.ndjson")
    run.drive(["c11", "random", nrand, tr_rand], timeout=3000)
    # ---- validate, one TLC run per (MinC, MaxC)
    groups = {}
    total = 0
    for tr in (tr_replay, tr_rand):
        cur = None
        with open(tr) as f:
            for ln in f:
                if '"ev":"reset"' in ln:
                    c = json.loads(ln)
                    cur = (c["minc"], c["maxc"])
                    total += 1
                groups.setdefault(cur, []).append(ln)
    if total != len(allcases) + nrand:
        raise vlib.MachineryError("dead driver: %d recordings for %d cases" % (total, len(allcases) + nrand))
    ntriv = set()
    driftsum = 0
    for (a, b), lns in sorted(groups.items()):
        tp = os.path.join(out, "trace_%d_%d.ndjson" % (a, b))
        with open(tp, "w") as f:
            f.writelines(lns)
        cfg = os.path.join(out, "Trace_%d_%d.cfg" % (a, b))
        with open(cfg, "w") as f:
            f.write("SPECIFICATION TraceSpec\nINVARIANT Report\nCHECK_DEADLOCK FALSE\nCONSTANTS\n  MinC = %d\n  MaxC = %d\n  Focus = \"%s\"\n" % (a, b, focus))
        fails, lines = run.validate("trace_%d_%d" % (a, b), SPEC, "RTreeTrace", cfg, tp, timeout=3000)
        import re
        m = re.findall(r'<<"DRIFT", (\d+)>>', open(os.path.join(out, "trace_%d_%d" % (a, b), "tlc.log")).read())
        if m:
            driftsum += int(m[-1])
        for fl in fails:
            block, idx = run.case_block(lines, fl)
            run.report_failure(block, idx, classify)
        # non-trivial distinct histories
        blk = []
        for ln in lines + ['{"ev":"reset"}']:
            if '"ev":"reset"' in ln:
                if blk and nontrivial(blk[1:]):
                    ntriv.add(json.dumps([(e["op"], e["o"]) for e in blk[1:]]) + json.dumps(blk[0].get("boxes")))
                blk = []
            blk.append(json.loads(ln))
        if not run.samples:
            hd = json.loads(lines[0])
            run.samples = [{"reset": hd}, json.loads(lines[1])]
    if driftsum:
        run.drift.append("%d full events whose structure snapshot differs from the R2 replica's prediction "
                         "(informational; the verdict rests on R1 only)" % driftsum)
    run.extra["r2_drift_events"] = driftsum
    run.distinct_nontrivial = len(ntriv)
    run.rule = ("histories: (a) TLC breadth-first cover of every (operation, resulting state) pair of the bounded model "
                "(VIEW hides the history), (b) TLC -simulate walks on 9- and 12-object pools, (c) seeded random "
                "fill/churn/drain/refill histories on 8-35 object pools for six (min,max) settings; a history is "
                "non-trivial if the real tree grew a level and later lost one or reached depth 3; distinct = distinct "
                "(pool, operation sequence)")
    run.assumptions = ["objects are *geom.Bounds pointers and geom.Point values with small integer coordinates",
                       "structure observed through the read-only verif hook VerifSnapshot"]


def run(run):
    run_rtree(run, "C11")


def replay(run, path, focus="C11"):
    with open(path) as f:
        rec = json.load(f)
    block = rec["recording"]
    hd = block[0]
    case = {"minc": hd["minc"], "maxc": hd["maxc"], "boxes": hd["boxes"],
            "ops": [{"op": e["op"], "o": e["o"]} for e in block[1:]]}
    cpath = os.path.join(run.out, "cases.ndjson")
    vlib.write_ndjson(cpath, [case])
    tr = os.path.join(run.out, "trace_replay.ndjson")
    run.drive(["c11", "replay", cpath, tr])
    cfg = os.path.join(run.out, "Trace.cfg")
    with open(cfg, "w") as f:
        f.write("SPECIFICATION TraceSpec\nINVARIANT Report\nCHECK_DEADLOCK FALSE\nCONSTANTS\n  MinC = %d\n  MaxC = %d\n  Focus = \"%s\"\n" % (hd["minc"], hd["maxc"], focus))
    fails, lines = run.validate("trace_replay", SPEC, "RTreeTrace", cfg, tr, expected_cases=1)
    for fl in fails:
        block, idx = run.case_block(lines, fl)
        run.report_failure(block, idx, classify)
    run.samples = [json.loads(lines[0])]
    run.distinct_nontrivial = 1
    run.rule = "replay of one recorded history"

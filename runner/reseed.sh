#!/bin/bash
# reseed.sh: re-run the quick check of every stored seeded change (seeded/<id>/patch.diff applied to a scratch worktree of
# /repo HEAD under /tmp, never to /repo itself); 4 lanes; results in /tmp/reseed.log (rc=1 = reported, rc=0 = not reported)
cd /verif
: > /tmp/reseed.log
ls -d seeded/C*-* | sed 's|seeded/||' | sort -t- -k1,1 -k2,2n > /tmp/reseed_all.txt
split -n l/4 /tmp/reseed_all.txt /tmp/reseed_lane_
lane(){ while read name; do
  C=${name%%-*}
  wt=/tmp/wt_rs_$name
  git -C /repo worktree add -q --detach $wt HEAD 2>/dev/null || { echo "$name worktree-failed" >> /tmp/reseed.log; continue; }
  if git -C $wt apply /verif/seeded/$name/patch.diff 2>/dev/null; then
    VERIF_OUT_TAG=-rs$name VERIF_REPO=$wt ./check $C quick > /tmp/rs_$name.log 2>&1; rc=$?
    echo "$name rc=$rc $(tail -1 /tmp/rs_$name.log | grep -o '[0-9]* violations')" >> /tmp/reseed.log
  else
    echo "$name patch-does-not-apply" >> /tmp/reseed.log
  fi
  git -C /repo worktree remove --force $wt; rm -rf /verif/out/$C-quick-rs$name
done < $1; }
for f in /tmp/reseed_lane_a?; do lane $f & done
wait
git -C /repo worktree prune
echo done >> /tmp/reseed.log

"""C14 - Clip returns exactly the parts of a line that lie inside the polygon."""
import json
import os
import vlib

LEVEL = "exploration"
SPEC = ["C14_Clip"]


def classify(block, idx):
    return None


def run(run):
    quick = run.tier == "quick"
    out = run.out
    k = dict(N=6, M2=12, M3=1200, M4=60, MM=40) if quick else dict(N=6, M2=2, M3=200, M4=12, MM=400)
    p = os.path.join(out, "Gen.cfg")
    with open(p, "w") as f:
        f.write("SPECIFICATION GenSpec\nCHECK_DEADLOCK FALSE\nCONSTANTS\n" + "".join("  %s = %d\n" % kv for kv in k.items()))
    cp = os.path.join(out, "cases.ndjson")
    ncases = run.gen("gen", SPEC, "ClipGen", p, cp, workers=1, timeout=3000, require=["ml=True", "ml=False", "sh="])
    tr1 = os.path.join(out, "trace_replay.ndjson")
    run.drive(["c14", "replay", cp, tr1], timeout=3000)
    nrand = 600 if quick else 20000
    tr2 = os.path.join(out, "trace_random.ndjson")
    run.drive(["c14", "random", nrand, tr2], timeout=3000)
    run.bounds = dict(k, random=nrand)
    tcfg = os.path.join(out, "Trace.cfg")
    with open(tcfg, "w") as f:
        f.write("SPECIFICATION TraceSpec\nINVARIANT TReport\nCHECK_DEADLOCK FALSE\n")
    ntriv = set()
    for name, tr, exp in (("trace_replay", tr1, ncases), ("trace_random", tr2, nrand)):
        fails, lines = run.validate(name, SPEC, "ClipTrace", tcfg, tr, expected_cases=exp, timeout=3000)
        for fl in fails:
            block, idx = run.case_block(lines, fl)
            run.report_failure(block, idx, classify)
        hd = None
        for ln in lines:
            e = json.loads(ln)
            if e["ev"] == "reset":
                hd = e
            elif e["ev"] == "clip" and hd is not None:
                # non-trivial: the result contains at least one crossing vertex (the line is cut by the boundary)
                if any(d.get("k") == "X" for pc in e["pieces"] for d in pc):
                    ntriv.add(json.dumps([hd["lines"], hd["poly"]]))
        if not run.samples:
            run.samples = [json.loads(x) for x in lines[:4]]
    run.distinct_nontrivial = len(ntriv)
    run.rule = ("TLC enumerates (thinned) simple lines of 2-4 vertices and two-member multi-lines on a 7x7 lattice x {triangle, quad, "
                "concave pentagon, quad with hole, box as *Bounds, two-member and holed multi-polygons}, keeping the cases in general "
                "position; seeded random lines against triangles/boxes on lattices up to 64 (TLC re-decides the domain). "
                "Non-trivial = the recorded result contains a crossing vertex; distinct = distinct (line, polygon)")
    run.assumptions = ["output vertices are identified with exact crossings when within 1e-9 (big.Rat in the harness); "
                       "lattice <= 64 keeps TLC's degree-4 comparisons within 32 bits"]


def replay(run, path):
    with open(path) as f:
        rec = json.load(f)
    hd = dict(rec["recording"][0])
    hd.pop("ev", None)
    hd.pop("case", None)
    cp = os.path.join(run.out, "cases.ndjson")
    vlib.write_ndjson(cp, [hd])
    tr = os.path.join(run.out, "trace_replay.ndjson")
    run.drive(["c14", "replay", cp, tr])
    tcfg = os.path.join(run.out, "Trace.cfg")
    with open(tcfg, "w") as f:
        f.write("SPECIFICATION TraceSpec\nINVARIANT TReport\nCHECK_DEADLOCK FALSE\n")
    fails, lines = run.validate("trace_replay", SPEC, "ClipTrace", tcfg, tr, expected_cases=1)
    for fl in fails:
        block, idx = run.case_block(lines, fl)
        run.report_failure(block, idx, classify)
    run.samples = [json.loads(x) for x in lines]
    run.distinct_nontrivial = 2
    run.rule = "replay of one recorded case"
